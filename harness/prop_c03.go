package main

import (
	"fmt"
	"strings"

	"verif/simrt"
)

// C03 — snps reports exactly the certainly-different sites, in reference order.
//
// Oracle: executable reference model (IUPAC set disjointness), one row per query in input
// order. Simulation decides order / exactly-once under NumCPU workers feeding a NumCPU-buffered
// channel and the re-ordering writer, for chunked reads of both files.

func init() {
	register(&Prop{
		ID: "C03", Level: "exploration", Quick: 80000, Thorough: 5000000,
		Rule:          "the first 64 trials are the exhaustive symbol table: every (reference symbol, query symbol) pair of the 17-symbol alphabet x letter case of either file x gap mode, embedded at varying columns of a 17..40-column alignment; the rest are generated alignments (width 1..40, 1..8 or 60..150 records, all symbol profiles, any FASTA layout) x --hard-gaps, each run under 3 seeded schedules with NumCPU in {1..16}; non-trivial = at least 2 queries and a record reached the writer out of input order in some run, or the trial is part of the symbol table; distinct = distinct (input, options)",
		ShrinkColumns: true,
		Gen:           genC03,
		Check:         checkC03,
		Required:      []string{},
		Expected:      []string{"out_of_order_arrival", "sender_blocked_on_full_buffer"},
	})
	exhaustiveNote["C03/quick"] = "all 17x17 symbol pairs x 2 letter cases per file x 2 gap modes are enumerated (trials 0..63)"
	exhaustiveNote["C03/thorough"] = exhaustiveNote["C03/quick"]
}

func snpsModel(ref string, q Aln, hardGaps bool) string {
	var sb strings.Builder
	sb.WriteString("query,SNPs\n")
	R := upper(ref)
	for i, name := range q.Names {
		S := upper(q.Seqs[i])
		var items []string
		for j := 0; j < len(R); j++ {
			a, _ := baseSet(R[j], hardGaps)
			b, _ := baseSet(S[j], hardGaps)
			if a&b == 0 {
				items = append(items, fmt.Sprintf("%c%d%c", R[j], j+1, S[j]))
			}
		}
		sb.WriteString(name + "," + strings.Join(items, "|") + "\n")
	}
	return sb.String()
}

func genC03(r *Rand, tier string, ord int) *Trial {
	t := &Trial{Params: map[string]string{}}
	var ref string
	var q Aln
	lay := genLayout(r)
	hard := r.Bool()
	if ord < 64 {
		// symbol table: reference carries every symbol once (rotated), query k carries symbol k everywhere
		t.Kind = "symbol-table"
		hard = ord&1 == 1
		lowerRef := ord&2 != 0
		lowerQ := ord&4 != 0
		pad := (ord >> 3) * 3 // 0..21 leading padding columns so that positions vary
		rot := ord % 17
		core := iupac17[rot:] + iupac17[:rot]
		ref = strings.Repeat("A", pad) + core
		for k := 0; k < 17; k++ {
			q.Names = append(q.Names, fmt.Sprintf("s%d", k))
			q.Seqs = append(q.Seqs, strings.Repeat("A", pad)+strings.Repeat(string(iupac17[k]), 17))
		}
		if lowerRef {
			ref = strings.ToLower(ref)
		}
		lay.Lower = lowerQ
		t.Params["table"] = "1"
	} else {
		t.Kind = "generated"
		many := r.P(0.1)
		w := genWidth(r, many)
		n := r.Range(1, 8)
		if many {
			n = r.Range(60, 150)
			t.Kind = "generated-many"
			if r.P(0.2) {
				n, t.Kind = r.Range(300, 600), "generated-many-hundreds"
			}
			if r.P(0.04) { // more records than any plausible fixed-size queue between the stages
				n, w, t.Kind = r.Range(1100, 1500), r.Range(2, 5), "generated-many-thousand"
			}
		}
		wide := !many && r.P(0.0012)
		if wide { // widths around powers of two up to 2^17 (see gen.go, scale)
			w, n, t.Kind = scaleWidth(r), r.Range(1, 4), "generated-wide"
		}
		ref = genRefSeq(r, w)
		if r.P(0.3) && !wide {
			ref = mutate(r, ref, profFull, 0)
		}
		if wide {
			q = genAln(r, ref, alnSpec{W: w, N: n, Prof: profN, SNP: 0.002, Prefix: "q"})
			for i := range q.Seqs {
				q.Seqs[i] = tailSNPs(r, ref, q.Seqs[i])
			}
			lay.Width = r.PickInt(0, 0, 60, 70, 80)
		} else {
			q = genAln(r, ref, alnSpec{W: w, N: n, Prof: -1, SNP: 0.15, Prefix: "q", AllN: 0.05, Dup: 0.05})
		}
		if !many && !wide && r.P(0.01) {
			// different records that a 32-bit checksum of the record takes for one (see checksumTwins)
			t.Kind = "generated-checksum-twins"
			a, b := checksumTwins(r, r.Range(40, 64))
			ref = a
			if r.P(0.5) {
				ref = mutate(r, a, profACGT, 0.1)
			}
			q = Aln{}
			for i, k := 0, r.Range(2, 8); i < k; i++ {
				s := a
				if i == 1 || (i > 1 && r.Bool()) {
					s = b
				}
				q.Names, q.Seqs = append(q.Names, fmt.Sprintf("q%d", i+1)), append(q.Seqs, s)
			}
		}
		if r.P(0.1) {
			ref = strings.ToLower(ref)
		}
	}
	t.Case = Case{Cmd: "snps", Files: map[string]string{"ref": ">ref\n" + ref + "\n", "query": q.FASTA(lay)}}
	t.Case.Opts.HardGaps = hard
	t.Runs = genRunCfgs(r, 3)
	if t.Kind == "generated-checksum-twins" {
		t.Runs[0].NumCPU = 1 // one worker meets both
	}
	if t.Kind == "generated-wide" {
		wideRuns(t.Runs)
	}
	if strings.HasPrefix(t.Kind, "generated-many") {
		n := strings.Count(t.Case.Files["query"], ">")
		scaleHorizon(t.Runs, 8*n)
		if r.P(0.5) {
			t.Runs[0].Strat = simrt.Strategy{Kind: simrt.StratPCT, Depth: r.Range(1, 3), Horizon: 5 * n, SelectRand: true}
			t.Runs[0].NumCPU = r.PickInt(2, 3, 4, 8)
		}
		if t.Kind == "generated-many-thousand" {
			// a slow output: one run each with the reader, the writer and the first worker starved
			for i := range t.Runs {
				t.Runs[i].Strat = simrt.Strategy{Kind: simrt.StratStarve, SwitchP: 0.3, StarveMask: 1 << uint(i+1), SelectRand: true}
				t.Runs[i].Chunk = 0
			}
		}
	}
	return t
}

func checkC03(t *Trial, ctx *Ctx) *Failure {
	rr, _ := parseFasta(t.Case.Files["ref"])
	var q Aln
	qq, _ := parseFasta(t.Case.Files["query"])
	for _, rc := range qq {
		q.Names = append(q.Names, strings.Fields(rc.head[1:])[0])
		q.Seqs = append(q.Seqs, strings.Join(rc.seq, ""))
	}
	want := snpsModel(strings.Join(rr[0].seq, ""), q, t.Case.Opts.HardGaps)
	ooo := false
	for i := range t.Runs {
		res := ctx.Run(t, i, &t.Case)
		if res.Out.Kind != simrt.Returned || res.Err != nil {
			t.Runs = t.Runs[i : i+1]
			return &Failure{Class: "C03/valid-input-not-processed{" + res.Out.Signature() + "}", Detail: res.Describe()}
		}
		if res.Tap != nil && res.Tap.outOfOrder > 0 {
			ooo = true
		}
		if got := string(res.Stdout); got != want {
			t.Runs = t.Runs[i : i+1]
			cls := "content"
			if lineMultiset(got) == lineMultiset(want) {
				cls = "row-order"
			} else if len(strings.Split(got, "\n")) != len(strings.Split(want, "\n")) {
				cls = "row-count"
			}
			return &Failure{Class: "C03/" + cls + "{" + t.Kind + "}", Detail: fmt.Sprintf("hard-gaps=%v\n%s\n--- model:\n%s--- snps:\n%s", t.Case.Opts.HardGaps, firstDiff(want, got), want, got)}
		}
	}
	if t.Params["table"] == "1" || (ooo && strings.Count(want, "\n") > 2) {
		ctx.Nontrivial()
	}
	return nil
}
