package main

import (
	"fmt"
	"sort"
	"strings"

	"verif/simrt"
)

// C12 — output is a deterministic function of the input, not of threads or scheduling; no data race.
//
// Trial = one valid input of one command form; run 0 is the baseline (policy P0, 1 thread,
// 1 CPU, sorted maps, whole-buffer reads); runs 1..n are perturbed (strategy x threads x NumCPU
// x map order x read chunking). Oracle: every run returns, with the baseline's bytes.
// The race clause is decided by the same trials executed in a -race build (race.go).

func init() {
	register(&Prop{
		ID: "C12", Level: "exploration", Quick: 26000, Thorough: 520000,
		Rule:     "trial = (command form, generated valid input) executed under the baseline schedule and 8 (quick) / 24 (thorough) perturbed configurations (scheduling strategy x --threads x NumCPU x map iteration order x read chunking); non-trivial = at least one perturbed run reached a different full operation trace than the baseline AND (a record arrived out of input order at some stage, or a select had several ready cases, or a map order was permuted); distinct = distinct (input, options)",
		Gen:      genC12,
		Check:    checkC12,
		Required: []string{},
		Expected: []string{"out_of_order_arrival", "select_multi_ready", "map_order", "sender_blocked_on_full_buffer"},
	})
}

var c12Forms = append(append([]string{}, allCmds...), "variants-gff-samestart", "variants-dupfeat", "topranking-csv", "cli-o-rerun", "topa-dir-rerun", "second-call")

var rerunForms = []string{"toma", "variants", "samvariants", "snps", "snps-agg", "closest", "closestn", "updownlist", "topranking"}

func genC12Case(r *Rand, form string, many bool) *Case {
	switch form {
	case "variants-gff-samestart":
		w := r.Range(9, 30)
		ref := genRefSeq(r, w)
		an := genAnno(r, ref, true, 0.7)
		q := genAln(r, ref, alnSpec{W: w, N: r.Range(1, 6), Prof: profACGT, SNP: 0.25, Prefix: "q"})
		all := Aln{Names: append([]string{"ref"}, q.Names...), Seqs: append([]string{ref}, q.Seqs...)}
		c := &Case{Cmd: "variants", Files: map[string]string{"msa": all.FASTA(genLayout(r)), "anno": an.GFF(ref, true)}}
		c.Opts = Opts{RefID: "ref", AnnoSuffix: "gff", Start: -1, End: -1, AppendSNP: r.P(0.3), Aggregate: r.P(0.4), Threads: 1}
		return c
	case "variants-dupfeat":
		ref, an, all := genDupFeature(r, r.Range(3, 9))
		c := &Case{Cmd: "variants", Files: map[string]string{"msa": all.FASTA(genLayout(r))}}
		if r.Bool() {
			c.Files["anno"], c.Opts.AnnoSuffix = an.GenBank(ref), "gb"
		} else {
			c.Files["anno"], c.Opts.AnnoSuffix = an.GFF(ref, true), "gff"
		}
		c.Opts.RefID, c.Opts.Start, c.Opts.End, c.Opts.Threads = "ref", -1, -1, 1
		c.Opts.AppendSNP, c.Opts.Aggregate = r.P(0.3), r.P(0.7)
		return c
	case "topranking-csv":
		// csv query and target (the streaming csv reader and the csv query list), derived with simulated `updown list` runs
		c := genCmdCase(r, "topranking", caseSize{many: many})
		cc := toCSVCase(c)
		if cc != nil && r.P(0.3) {
			cc.Files["target"], cc.Opts.TType = c.Files["target"], "fasta"
		}
		return cc
	}
	c := genCmdCase(r, form, caseSize{many: many})
	if form == "topa-dir" && r.P(0.15) {
		// two query names that gofasta's own rule ('/' becomes '_') maps to one file name: which pair the file
		// ends up holding must not depend on the schedule
		sc := parseSamText(c.Files["sam"])
		var names []string
		for _, rec := range sc.Recs {
			if rec.Flag&(4|256) == 0 && (len(names) == 0 || names[len(names)-1] != rec.Name) {
				names = append(names, rec.Name)
			}
		}
		if len(names) >= 2 {
			a, b := names[0], names[len(names)-1]
			for i := range sc.Recs {
				switch sc.Recs[i].Name {
				case a:
					sc.Recs[i].Name = "hCoV-19/same/1"
				case b:
					sc.Recs[i].Name = "hCoV-19_same_1"
				}
			}
			c.Files["sam"] = sc.Text()
		}
	}
	return c
}

func genC12(r *Rand, tier string, ord int) *Trial {
	form := c12Forms[ord%len(c12Forms)]
	if form == "cli-o-rerun" {
		// history: the real command line writes --outfile into a path that an earlier, longer run left behind
		pk := genCmdCase(r, rerunForms[r.Intn(len(rerunForms))], caseSize{})
		cc, ok := cliCase(pk)
		if !ok {
			return nil
		}
		cc.Opts.Args = append(cc.Opts.Args, "-o", "result.out")
		t := &Trial{Kind: form, Case: *cc}
		b := P0()
		b.Explicit = true
		t.Runs = append([]RunCfg{b}, genRunCfgs(r, 2)...)
		return t
	}
	if form == "second-call" {
		// repeated runs inside one process: the library command has already been called on another input
		// (a program that loops over files); what that call left in package-level state must not show
		f := rerunForms[r.Intn(len(rerunForms))]
		c := genCmdCase(r, f, caseSize{})
		c.Warm = genCmdCase(r, f, caseSize{})
		t := &Trial{Kind: form, Case: *c}
		b := P0()
		b.Explicit = true
		t.Runs = append([]RunCfg{b}, genRunCfgs(r, 2)...)
		return t
	}
	if form == "topa-dir-rerun" {
		// history again: toPairAlign writes one file per query into a directory that already holds longer files of those names
		c := genCmdCase(r, "topa-dir", caseSize{})
		t := &Trial{Kind: form, Case: *c}
		b := P0()
		b.Explicit = true
		t.Runs = append([]RunCfg{b}, genRunCfgs(r, 2)...)
		return t
	}
	many := r.P(0.15)
	c := genC12Case(r, form, many)
	if c == nil {
		return nil
	}
	n := 8
	if tier == "thorough" {
		n = 24
	}
	if many {
		n = n / 4
	}
	t := &Trial{Kind: form, Case: *c}
	b := P0()
	b.Explicit = true
	t.Runs = append([]RunCfg{b}, genRunCfgs(r, n)...)
	return t
}

func lineMultiset(s string) string {
	l := strings.Split(s, "\n")
	sort.Strings(l)
	return strings.Join(l, "\n")
}

func tokenMultiset(s string) string {
	l := strings.FieldsFunc(s, func(r rune) bool { return r == '\n' || r == '|' || r == ',' || r == ';' })
	sort.Strings(l)
	return strings.Join(l, "\n")
}

// diffClass says how two outputs differ: only in the order of whole lines, only in the order of items, or in content.
func diffClass(a, b string) string {
	switch {
	case lineMultiset(a) == lineMultiset(b):
		return "line-order"
	case tokenMultiset(a) == tokenMultiset(b):
		return "item-order"
	}
	return "content"
}

func firstDiff(a, b string) string {
	n := len(a)
	if len(b) < n {
		n = len(b)
	}
	i := 0
	for i < n && a[i] == b[i] {
		i++
	}
	lo := i - 60
	if lo < 0 {
		lo = 0
	}
	cut := func(s string) string {
		hi := i + 60
		if hi > len(s) {
			hi = len(s)
		}
		if lo > len(s) {
			return ""
		}
		return s[lo:hi]
	}
	return fmt.Sprintf("first difference at byte %d:\n  baseline: %q\n  this run: %q", i, cut(a), cut(b))
}

func checkC12(t *Trial, ctx *Ctx) *Failure {
	if t.Kind == "cli-o-rerun" {
		fresh := ctx.Run(t, 0, &t.Case)
		if fresh.Out.Kind != simrt.Returned || fresh.Err != nil {
			ctx.Discard("command line run into a fresh file did not succeed: " + firstLine(fresh.Describe()))
			return nil
		}
		stale := strings.Repeat("left,behind,by,an,earlier,longer,run\n", 40+len(fresh.Files["result.out"])/30)
		for i := 1; i < len(t.Runs); i++ {
			c2 := t.Case
			c2.Files = map[string]string{"result.out": stale}
			for k, v := range t.Case.Files {
				c2.Files[k] = v
			}
			res := ctx.Run(t, i, &c2)
			if res.Out.Kind != simrt.Returned || res.Err != nil {
				t.Runs = []RunCfg{t.Runs[0], t.Runs[i]}
				return &Failure{Class: "C12/rerun-into-existing-file-fails{cli}", Detail: fmt.Sprintf("gofasta %v: %s", t.Case.Opts.Args, res.Describe())}
			}
			if string(res.Files["result.out"]) != string(fresh.Files["result.out"]) {
				t.Runs = []RunCfg{t.Runs[0], t.Runs[i]}
				return &Failure{Class: "C12/output-file-depends-on-its-previous-content{cli}", Detail: fmt.Sprintf("gofasta %v\nthe same command and input written into an existing, longer --outfile leaves different bytes than written into a fresh one.\n%s", t.Case.Opts.Args, firstDiff(string(fresh.Files["result.out"]), string(res.Files["result.out"])))}
			}
		}
		ctx.Nontrivial()
		return nil
	}
	if t.Kind == "second-call" {
		first := t.Case
		first.Warm = nil
		fresh := ctx.Run(t, 0, &first)
		if fresh.Out.Kind != simrt.Returned || fresh.Err != nil {
			ctx.Discard("the call in a fresh process did not succeed: " + firstLine(fresh.Describe()))
			return nil
		}
		for i := 0; i < len(t.Runs); i++ {
			res := ctx.Run(t, i, &t.Case)
			desc := fmt.Sprintf("%s called after an earlier %s call on another input in the same process (run %d)", t.Case.Cmd, t.Case.Warm.Cmd, i)
			if res.Out.Kind != simrt.Returned || res.Err != nil {
				t.Runs = []RunCfg{t.Runs[0], t.Runs[i]}
				return &Failure{Class: fmt.Sprintf("C12/second-call-fails{%s}", t.Case.Cmd), Detail: desc + " did not succeed although the same call in a fresh process does:\n" + res.Describe()}
			}
			if k := res.outputKey(); k != fresh.outputKey() {
				t.Runs = []RunCfg{t.Runs[0], t.Runs[i]}
				return &Failure{Class: fmt.Sprintf("C12/output-depends-on-earlier-call{%s}", t.Case.Cmd), Detail: desc + " wrote different bytes than the same call in a fresh process.\n" + firstDiff(fresh.outputKey(), k)}
			}
		}
		ctx.Nontrivial()
		return nil
	}
	if t.Kind == "topa-dir-rerun" {
		fresh := ctx.Run(t, 0, &t.Case)
		if fresh.Out.Kind != simrt.Returned || fresh.Err != nil || len(fresh.Files) == 0 {
			ctx.Discard("toPairAlign into a fresh directory did not succeed or wrote no file: " + firstLine(fresh.Describe()))
			return nil
		}
		for i := 1; i < len(t.Runs); i++ {
			c2 := t.Case
			c2.Files = map[string]string{}
			for k, v := range t.Case.Files {
				c2.Files[k] = v
			}
			for name, b := range fresh.Files {
				c2.Files[name] = ">left_behind\n" + strings.Repeat("ACGTNNNNACGT\n", 3+len(b)/10)
			}
			res := ctx.Run(t, i, &c2)
			if res.Out.Kind != simrt.Returned || res.Err != nil {
				t.Runs = []RunCfg{t.Runs[0], t.Runs[i]}
				return &Failure{Class: "C12/rerun-into-existing-file-fails{topa-dir}", Detail: res.Describe()}
			}
			if res.outputKey() != fresh.outputKey() {
				t.Runs = []RunCfg{t.Runs[0], t.Runs[i]}
				return &Failure{Class: "C12/output-file-depends-on-its-previous-content{topa-dir}", Detail: "the same input written into a directory that already holds (longer) files of the same names leaves different bytes than written into a fresh directory.\n" + firstDiff(fresh.outputKey(), res.outputKey())}
			}
		}
		ctx.Nontrivial()
		return nil
	}
	base := ctx.Run(t, 0, &t.Case)
	if base.Out.Kind != simrt.Returned {
		return &Failure{Class: fmt.Sprintf("C12/baseline-%s{%s}", base.Out.Kind, t.Kind), Detail: "the baseline run of a valid input did not return: " + base.Describe()}
	}
	if base.Err != nil {
		// the input is outside the command's domain: then it is refused under every schedule (no bytes are compared:
		// how much was written before the refusal may depend on the schedule)
		ctx.Probe("baseline_refused_input", 1)
		for i := 1; i < len(t.Runs); i++ {
			res := ctx.Run(t, i, &t.Case)
			if res.Out.Kind == simrt.Returned && res.Err == nil {
				t.Runs = []RunCfg{t.Runs[0], t.Runs[i]}
				return &Failure{Class: fmt.Sprintf("C12/error-depends-on-schedule{%s}", t.Kind), Detail: fmt.Sprintf("the baseline run refused the input (%s), run %d of the same input succeeded", firstLine(base.ErrString()), i)}
			}
		}
		return nil
	}
	bk := base.outputKey()
	interesting := false
	for i := 1; i < len(t.Runs); i++ {
		res := ctx.Run(t, i, &t.Case)
		if res.Out.Trace != base.Out.Trace {
			s := res.Out.Stats
			if (res.Tap != nil && res.Tap.outOfOrder > 0) || s.SelectMultiReady > 0 || s.MapPermuted > 0 {
				interesting = true
			}
		}
		desc := fmt.Sprintf("run %d (strategy %s, threads %d, NumCPU %d, map mode %d, chunk mode %d)", i, stratNames[t.Runs[i].Strat.Kind], t.Runs[i].Threads, t.Runs[i].NumCPU, t.Runs[i].MapMode, t.Runs[i].Chunk)
		if res.Out.Kind != simrt.Returned {
			t.Runs = []RunCfg{t.Runs[0], t.Runs[i]}
			return &Failure{Class: fmt.Sprintf("C12/%s{%s}", res.Out.Signature(), t.Kind), Detail: desc + " of a valid input did not return although the baseline did:\n" + res.Describe()}
		}
		if (res.Err == nil) != (base.Err == nil) {
			t.Runs = []RunCfg{t.Runs[0], t.Runs[i]}
			return &Failure{Class: fmt.Sprintf("C12/error-depends-on-schedule{%s}", t.Kind), Detail: desc + ": baseline succeeded, this run returned error: " + res.ErrString()}
		}
		if k := res.outputKey(); k != bk {
			t.Runs = []RunCfg{t.Runs[0], t.Runs[i]}
			agg := ""
			if t.Case.Opts.Aggregate {
				agg = ",aggregate"
			}
			return &Failure{Class: fmt.Sprintf("C12/output-%s{%s%s}", diffClass(bk, k), t.Kind, agg), Detail: desc + " wrote different bytes than the baseline run of the same input.\n" + firstDiff(bk, k)}
		}
	}
	if interesting {
		ctx.Nontrivial()
	}
	return nil
}
