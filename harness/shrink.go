package main

import (
	"strconv"
	"strings"
)

// Generic workload reducers used by the minimiser: every Check derives its expectations from the
// case's files, so simplifying a file keeps the trial self-consistent. Candidates: drop one FASTA
// record, drop one SAM record line, rewrite a FASTA file in canonical layout (one line per
// sequence, upper case, LF), drop one alignment column from all FASTA files of the case at once.

func isFastaText(s string) bool { return strings.HasPrefix(s, ">") }
func isSamText(s string) bool   { return strings.HasPrefix(s, "@HD") || strings.HasPrefix(s, "@SQ") }

func canonFasta(s string) (string, []fastaRec) {
	recs, _ := parseFasta(s)
	var sb strings.Builder
	out := make([]fastaRec, len(recs))
	for i, r := range recs {
		seq := strings.ToUpper(strings.Join(r.seq, ""))
		out[i] = fastaRec{head: r.head, seq: []string{seq}}
		sb.WriteString(r.head + "\n" + seq + "\n")
	}
	return sb.String(), out
}

func withFile(t *Trial, name, content string) *Trial {
	c := cloneTrial(t)
	c.Case.Files[name] = content
	return c
}

func genericShrink(t *Trial, columns bool) []*Trial {
	var out []*Trial
	names := make([]string, 0, len(t.Case.Files))
	for n := range t.Case.Files {
		names = append(names, n)
	}
	sortStringsAsc(names)
	allCanon := true
	width := -1
	nFasta := 0
	for _, n := range names {
		s := t.Case.Files[n]
		switch {
		case isFastaText(s) && !strings.HasPrefix(n, "anno"):
			nFasta++
			canon, recs := canonFasta(s)
			if canon != s {
				allCanon = false
				out = append(out, withFile(t, n, canon))
			}
			if len(recs) > 1 {
				// delta debugging over records: drop big chunks first, single records last
				for size := len(recs) / 2; size >= 1; size /= 2 {
					for lo := 0; lo < len(recs); lo += size {
						hi := lo + size
						if hi > len(recs) {
							hi = len(recs)
						}
						if hi-lo == len(recs) {
							continue
						}
						var sb strings.Builder
						for i, r := range recs {
							if i < lo || i >= hi {
								sb.WriteString(r.head + "\n" + r.seq[0] + "\n")
							}
						}
						out = append(out, withFile(t, n, sb.String()))
					}
					if len(out) > 60 {
						break
					}
				}
			}
			for _, r := range recs {
				if width == -1 {
					width = len(r.seq[0])
				} else if width != len(r.seq[0]) {
					width = -2
				}
			}
		case isSamText(s):
			var hdr, body []string
			for _, l := range strings.SplitAfter(s, "\n") {
				if l == "" {
					continue
				}
				if strings.HasPrefix(l, "@") {
					hdr = append(hdr, l)
				} else {
					body = append(body, l)
				}
			}
			for size := len(body) / 2; size >= 1 && len(body) > 1; size /= 2 {
				for lo := 0; lo < len(body); lo += size {
					hi := lo + size
					if hi > len(body) {
						hi = len(body)
					}
					c := append(append([]string(nil), hdr...), body[:lo]...)
					c = append(c, body[hi:]...)
					out = append(out, withFile(t, n, strings.Join(c, "")))
				}
				if len(out) > 60 {
					break
				}
			}
		}
	}
	if columns && allCanon && nFasta > 0 && width > 1 {
		// delta debugging over alignment columns (dropped from all FASTA files at once): big ranges first, single
		// columns last; candidates are built only as far as the cap below lets them be tried
		type parsed struct {
			name string
			recs []fastaRec
		}
		var fs []parsed
		for _, n := range names {
			s := t.Case.Files[n]
			if !isFastaText(s) || strings.HasPrefix(n, "anno") {
				continue
			}
			_, recs := canonFasta(s)
			fs = append(fs, parsed{n, recs})
		}
	cols:
		for size := (width + 1) / 2; size >= 1; size /= 2 {
			for hi := width; hi > 0; hi -= size {
				lo := hi - size
				if lo < 0 {
					lo = 0
				}
				if hi-lo >= width {
					continue
				}
				if len(out) >= 120 {
					break cols
				}
				c := cloneTrial(t)
				for _, f := range fs {
					var sb strings.Builder
					for _, r := range f.recs {
						sb.WriteString(r.head + "\n" + r.seq[0][:lo] + r.seq[0][hi:] + "\n")
					}
					c.Case.Files[f.name] = sb.String()
				}
				out = append(out, c)
			}
		}
	}
	if len(out) > 120 {
		out = out[:120]
	}
	return out
}

func sortStringsAsc(a []string) {
	for i := 1; i < len(a); i++ {
		for j := i; j > 0 && a[j] < a[j-1]; j-- {
			a[j], a[j-1] = a[j-1], a[j]
		}
	}
}

// parseSamText rebuilds the structured SAM case from its text (the harness' own SAM dialect).
func parseSamText(text string) *SamCase {
	sc := &SamCase{}
	for _, l := range strings.Split(text, "\n") {
		l = strings.TrimSuffix(l, "\r")
		if l == "" {
			continue
		}
		if strings.HasPrefix(l, "@") {
			if strings.HasPrefix(l, "@SQ") {
				for _, f := range strings.Split(l, "\t") {
					if strings.HasPrefix(f, "SN:") {
						sc.RefName = f[3:]
					}
					if strings.HasPrefix(f, "LN:") {
						n, _ := strconv.Atoi(f[3:])
						sc.RefSeq = strings.Repeat("A", n) // only its length matters to the toMultiAlign model
					}
				}
			}
			if strings.HasPrefix(l, "@PG") {
				sc.PG = true
			}
			continue
		}
		f := strings.Split(l, "\t")
		if len(f) < 11 {
			continue
		}
		rec := SamRec{Name: f[0]}
		rec.Flag, _ = strconv.Atoi(f[1])
		rec.Pos, _ = strconv.Atoi(f[3])
		if f[5] != "*" {
			num := 0
			for i := 0; i < len(f[5]); i++ {
				ch := f[5][i]
				if ch >= '0' && ch <= '9' {
					num = num*10 + int(ch-'0')
				} else {
					rec.Cigar = append(rec.Cigar, CigOp{Op: ch, Len: num})
					num = 0
				}
			}
		}
		if f[9] != "*" {
			rec.Seq = f[9]
		}
		sc.Recs = append(sc.Recs, rec)
	}
	return sc
}
