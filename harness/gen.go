package main

import (
	"fmt"
	"hash/crc32"
	"strings"
)

// ---------- alignments (FASTA) ----------

const iupac17 = "ACGTRYSWKMBDHVN-?"

// Aln is a set of named, equally long sequences in canonical (upper-case) form.
type Aln struct {
	Names []string
	Seqs  []string
}

// Layout is how an alignment is rendered as FASTA text; it never changes content.
type Layout struct {
	Width int  // line width, 0 = one line
	Lower bool // lower-case sequence letters
	CRLF  bool
	Desc  bool   // add a description after the ID
	Sep   string // whitespace between ID and description ("" = one space)
	Lead  string // whitespace between '>' and the ID (usually none)
	// LongDesc > 0: the description is padded with key=value pairs to a header line of about this many bytes
	LongDesc int
}

// Header is the header text (without '>') of record i under this layout.
func (l Layout) Header(i int, name string) string {
	h := l.Lead + name
	if l.Desc {
		sep := l.Sep
		if sep == "" {
			sep = " "
		}
		h += sep + fmt.Sprintf("sample %d", i)
		if l.LongDesc > len(h) {
			h += " " + strings.Repeat("lineage=B.1.1.7;country=ACGTN;", (l.LongDesc-len(h))/30+1)[:l.LongDesc-len(h)-1]
		}
	}
	return h
}

func genLayout(r *Rand) Layout {
	l := Layout{}
	if r.P(0.4) {
		l.Width = r.PickInt(1, 2, 3, 5, 7, 10, 60)
	}
	l.Lower = r.P(0.2)
	l.CRLF = r.P(0.2)
	l.Desc = r.P(0.2)
	if l.Desc && r.P(0.4) {
		l.Sep = r.Pick("\t", "  ", " \t", "\t\t")
	}
	if r.P(0.03) {
		l.Lead = r.Pick(" ", "\t")
	}
	return l
}

func (a Aln) FASTA(l Layout) string {
	var sb strings.Builder
	nl := "\n"
	if l.CRLF {
		nl = "\r\n"
	}
	for i, n := range a.Names {
		sb.WriteString(">" + l.Header(i, n) + nl)
		s := a.Seqs[i]
		if l.Lower {
			s = strings.ToLower(s)
		}
		if l.Width <= 0 {
			sb.WriteString(s + nl)
			continue
		}
		for j := 0; j < len(s); j += l.Width {
			e := j + l.Width
			if e > len(s) {
				e = len(s)
			}
			sb.WriteString(s[j:e] + nl)
		}
		if len(s) == 0 {
			sb.WriteString(nl)
		}
	}
	return sb.String()
}

func genRefSeq(r *Rand, w int) string {
	b := make([]byte, w)
	for i := range b {
		b[i] = "ACGT"[r.Intn(4)]
	}
	return string(b)
}

// symbol profiles for derived sequences
const (
	profACGT = iota
	profN
	profFull
	profTracts
)

// mutate derives a sequence from base: SNPs, ambiguity codes, tracts, gaps according to the profile.
func mutate(r *Rand, base string, prof int, snpP float64) string {
	b := []byte(base)
	for i := range b {
		if r.P(snpP) {
			b[i] = "ACGT"[r.Intn(4)]
		}
	}
	switch prof {
	case profN:
		for i := range b {
			if r.P(0.08) {
				b[i] = 'N'
			}
		}
	case profFull:
		for i := range b {
			if r.P(0.15) {
				b[i] = iupac17[r.Intn(len(iupac17))]
			}
		}
	case profTracts:
		// ambiguity tracts at either end and inside, adjacent runs separated by one base
		if r.P(0.5) {
			k := r.Range(1, 1+len(b)/3)
			for i := 0; i < k && i < len(b); i++ {
				b[i] = "N-?"[r.Intn(3)]
			}
		}
		if r.P(0.5) {
			k := r.Range(1, 1+len(b)/3)
			for i := 0; i < k && i < len(b); i++ {
				b[len(b)-1-i] = "N-?R"[r.Intn(4)]
			}
		}
		for t := r.Intn(3); t > 0; t-- {
			s := r.Intn(len(b))
			k := r.Range(1, 4)
			for i := s; i < s+k && i < len(b); i++ {
				b[i] = "NY-"[r.Intn(3)]
			}
		}
	}
	return string(b)
}

type alnSpec struct {
	W, N   int
	Prof   int
	SNP    float64
	Prefix string
	AllN   float64 // probability that a row is entirely N
	Dup    float64 // probability that a row duplicates an earlier one
}

func genAln(r *Rand, ref string, sp alnSpec) Aln {
	a := Aln{}
	for i := 0; i < sp.N; i++ {
		a.Names = append(a.Names, fmt.Sprintf("%s%d", sp.Prefix, i+1))
		var s string
		switch {
		case i > 0 && r.P(sp.Dup):
			s = a.Seqs[r.Intn(i)]
		case r.P(sp.AllN):
			s = strings.Repeat("N", len(ref))
		default:
			prof := sp.Prof
			if prof < 0 {
				prof = r.Intn(4)
			}
			s = mutate(r, ref, prof, sp.SNP)
		}
		a.Seqs = append(a.Seqs, s)
	}
	return a
}

func genWidth(r *Rand, many bool) int {
	if many {
		return r.Range(4, 12)
	}
	return r.Skewed(1, 40)
}

// ---------- SAM ----------

type CigOp struct {
	Op  byte
	Len int
}

type SamRec struct {
	Name  string
	Flag  int
	Pos   int // 1-based
	Cigar []CigOp
	Seq   string
}

type SamCase struct {
	RefName string
	RefSeq  string
	Recs    []SamRec
	PG      bool
	// layout of the text: the last line without its newline; CRLF line ends
	NoFinalNewline, CRLF bool
}

func cigarString(c []CigOp) string {
	if len(c) == 0 {
		return "*"
	}
	var sb strings.Builder
	for _, o := range c {
		fmt.Fprintf(&sb, "%d%c", o.Len, o.Op)
	}
	return sb.String()
}

func (s *SamCase) Text() string {
	var sb strings.Builder
	sb.WriteString("@HD\tVN:1.6\tSO:unsorted\n")
	fmt.Fprintf(&sb, "@SQ\tSN:%s\tLN:%d\n", s.RefName, len(s.RefSeq))
	if s.PG {
		sb.WriteString("@PG\tID:minimap2\tPN:minimap2\tVN:2.24\n")
	}
	for _, rec := range s.Recs {
		sb.WriteString(s.recLine(rec))
	}
	text := sb.String()
	if s.CRLF {
		text = strings.ReplaceAll(text, "\n", "\r\n")
	}
	if s.NoFinalNewline {
		text = strings.TrimSuffix(strings.TrimSuffix(text, "\n"), "\r")
	}
	return text
}

func (s *SamCase) recLine(rec SamRec) string {
	seq := rec.Seq
	if seq == "" {
		seq = "*"
	}
	rname := s.RefName
	if rec.Flag&4 != 0 && rec.Pos == 0 {
		rname = "*"
	}
	return fmt.Sprintf("%s\t%d\t%s\t%d\t60\t%s\t*\t0\t0\t%s\t*\n", rec.Name, rec.Flag, rname, rec.Pos, cigarString(rec.Cigar), seq)
}

type samSpec struct {
	L           int
	Queries     int
	MaxRecs     int
	Overlap     bool    // records of one query may overlap
	Conflict    float64 // probability that an overlapping record disagrees on a base
	Ins         float64 // probability of an insertion after a base
	Del         float64
	Skip        float64
	Junk        float64 // probability of interleaving an unmapped / secondary record
	ShortTail   bool    // bias: records end soon after an insertion (C02)
	Clip        float64
	InsDisjoint bool    // an insertion anchor is covered by exactly one record
	EdgeIns     float64 // probability of an insertion as the first / last aligned operation of a record
	DelFlip     float64 // probability that a record other than the first disagrees on deleted-vs-aligned at a position
}

// genSam builds a SAM case: per query a plan over reference positions (base / deleted / skipped,
// insertions between positions) and 1..MaxRecs records, each rendering an interval of that plan.
func genSam(r *Rand, sp samSpec) *SamCase {
	sc := &SamCase{RefName: "ref", RefSeq: genRefSeq(r, sp.L), PG: r.P(0.3)}
	L := sp.L
	// substituted and conflicting bases: A, C, G, T (and N); in one case out of seven any IUPAC letter SAM's SEQ may hold
	subst, conflict := "ACGTN", "ACGT"
	if r.P(0.15) {
		subst, conflict = "ACGTNRYKMSWBDHVBDHV", "ACGTBDHVRY"
	}
	for q := 0; q < sp.Queries; q++ {
		name := fmt.Sprintf("q%d", q+1)
		if r.P(0.1) {
			name = fmt.Sprintf("hCoV-19/x/%d/2020", q+1)
		}
		// plan
		state := make([]byte, L+2) // 1..L : 'B','D','N'
		qb := make([]byte, L+2)
		ins := make([]string, L+2) // inserted after position p (1..L-1)
		for p := 1; p <= L; p++ {
			state[p] = 'B'
			qb[p] = sc.RefSeq[p-1]
			if r.P(0.1) {
				qb[p] = subst[r.Intn(len(subst))]
			}
		}
		for p := 1; p <= L; p++ {
			if r.P(sp.Del) {
				k := r.Range(1, 3)
				for j := p; j < p+k && j <= L; j++ {
					state[j] = 'D'
				}
			} else if r.P(sp.Skip) {
				k := r.Range(1, 3)
				for j := p; j < p+k && j <= L; j++ {
					state[j] = 'N'
				}
			}
			if p < L && r.P(sp.Ins) {
				k := r.Range(1, 4)
				b := make([]byte, k)
				for j := range b {
					b[j] = "ACGT"[r.Intn(4)]
				}
				ins[p] = string(b)
			}
		}
		nrec := r.Skewed(1, sp.MaxRecs)
		// intervals
		type iv struct{ a, b int }
		var ivs []iv
		if nrec == 1 {
			a := r.Skewed(1, L)
			b := L - r.Skewed(0, L-a)
			ivs = append(ivs, iv{a, b})
		} else if sp.Overlap && r.P(0.6) {
			for k := 0; k < nrec; k++ {
				a := r.Range(1, L)
				b := r.Range(a, L)
				ivs = append(ivs, iv{a, b})
			}
		} else {
			// disjoint: cut points
			cuts := []int{}
			for len(cuts) < 2*nrec {
				cuts = append(cuts, r.Range(1, L))
			}
			sortInts(cuts)
			for k := 0; k+1 < len(cuts); k += 2 {
				a, b := cuts[k], cuts[k+1]
				if len(ivs) > 0 && a <= ivs[len(ivs)-1].b {
					a = ivs[len(ivs)-1].b + 1
				}
				if a > b || a > L {
					continue
				}
				ivs = append(ivs, iv{a, b})
			}
			if len(ivs) == 0 {
				ivs = append(ivs, iv{1, L})
			}
			if r.P(0.3) { // not necessarily in coordinate order
				i, j := r.Intn(len(ivs)), r.Intn(len(ivs))
				ivs[i], ivs[j] = ivs[j], ivs[i]
			}
		}
		// make sure the query has at least one aligned base
		hasBase := false
		for _, v := range ivs {
			for p := v.a; p <= v.b; p++ {
				if state[p] == 'B' {
					hasBase = true
				}
			}
		}
		if !hasBase {
			state[ivs[0].a] = 'B'
		}
		usedIns := make([]bool, L+2)
		for k, v := range ivs {
			a, b := v.a, v.b
			if sp.ShortTail && r.P(0.6) {
				// end the record 0..2 bases after an insertion inside it
				for p := a; p < b; p++ {
					if ins[p] != "" {
						nb := p + 1 + r.Intn(3)
						if nb < b {
							b = nb
						}
						break
					}
				}
			}
			rec := SamRec{Name: name, Pos: a}
			if k > 0 {
				rec.Flag = 2048
			}
			if r.P(0.3) {
				rec.Flag |= 16
			}
			var ops []CigOp
			var seq []byte
			add := func(op byte, n int) {
				if n <= 0 {
					return
				}
				if len(ops) > 0 && ops[len(ops)-1].Op == op {
					ops[len(ops)-1].Len += n
				} else {
					ops = append(ops, CigOp{op, n})
				}
			}
			rb := func(k int) []byte {
				x := make([]byte, k)
				for i := range x {
					x[i] = "ACGT"[r.Intn(4)]
				}
				return x
			}
			if r.P(sp.Clip) {
				add('H', r.Range(1, 9))
			}
			if r.P(sp.Clip) {
				n := r.Range(1, 4)
				add('S', n)
				seq = append(seq, rb(n)...)
			}
			useEqX := r.P(0.3)
			if sp.EdgeIns > 0 && r.P(sp.EdgeIns) && !usedIns[a-1] && ins[a-1] == "" {
				usedIns[a-1] = true
				x := rb(r.Range(1, 3))
				add('I', len(x))
				seq = append(seq, x...)
			}
			for p := a; p <= b; p++ {
				st := state[p]
				if sp.DelFlip > 0 && r.P(sp.DelFlip) {
					// this record alone sees a deletion where the others align a base, or the other way round
					switch st {
					case 'B':
						st = 'D'
					case 'D', 'N':
						st = 'B'
					}
				}
				switch st {
				case 'B':
					base := qb[p]
					if sp.Conflict > 0 && k > 0 && r.P(sp.Conflict) {
						base = conflict[r.Intn(len(conflict))]
					}
					op := byte('M')
					if useEqX {
						if base == sc.RefSeq[p-1] {
							op = '='
						} else {
							op = 'X'
						}
					}
					add(op, 1)
					seq = append(seq, base)
				case 'D':
					add('D', 1)
				case 'N':
					add('N', 1)
				}
				if p < b && ins[p] != "" && !(sp.InsDisjoint && usedIns[p]) {
					usedIns[p] = true
					if n := len(ins[p]); n >= 2 && r.P(0.12) {
						// the same insertion written as two I operations around a padding operation (padded SAM)
						k := r.Range(1, n-1)
						add('I', k)
						add('P', r.Range(1, 2))
						add('I', n-k)
					} else {
						add('I', n)
					}
					seq = append(seq, ins[p]...)
					if r.P(0.1) {
						add('P', r.Range(1, 2))
					}
				}
			}
			if sp.EdgeIns > 0 && r.P(sp.EdgeIns) && !usedIns[b] && ins[b] == "" {
				usedIns[b] = true
				x := rb(r.Range(1, 3))
				add('I', len(x))
				seq = append(seq, x...)
			}
			if r.P(sp.Clip) {
				n := r.Range(1, 4)
				add('S', n)
				seq = append(seq, rb(n)...)
			}
			if r.P(sp.Clip) {
				add('H', r.Range(1, 9))
			}
			rec.Cigar, rec.Seq = ops, string(seq)
			if len(seq) == 0 {
				// a record without any query base has SEQ "*" and fails biogo's length check unless the cigar consumes no query: keep it valid
				rec.Seq = ""
			}
			sc.Recs = append(sc.Recs, rec)
			if r.P(sp.Junk) {
				sc.Recs = append(sc.Recs, genJunk(r, sc, name, q))
			}
		}
		if r.P(sp.Junk) {
			sc.Recs = append(sc.Recs, genJunk(r, sc, name, q))
		}
	}
	sc.NoFinalNewline, sc.CRLF = r.P(0.06), r.P(0.04)
	return sc
}

// genJunk is an unmapped (0x4) or secondary (0x100) record, carrying this query's name or another one.
func genJunk(r *Rand, sc *SamCase, name string, q int) SamRec {
	L := len(sc.RefSeq)
	n := name
	if r.P(0.4) {
		n = fmt.Sprintf("junk%d", q)
	}
	if r.Bool() {
		k := r.Range(1, 6)
		b := make([]byte, k)
		for i := range b {
			b[i] = "ACGT"[r.Intn(4)]
		}
		rec := SamRec{Name: n, Flag: 4, Pos: 0, Seq: string(b)}
		if r.P(0.3) { // unmapped but placed
			rec.Pos = r.Range(1, L)
			rec.Flag |= r.PickInt(0, 16, 2048)
		}
		return rec
	}
	a := r.Range(1, L)
	k := r.Range(1, L-a+1)
	b := make([]byte, k)
	for i := range b {
		b[i] = "ACGT"[r.Intn(4)]
	}
	return SamRec{Name: n, Flag: 256 | r.PickInt(0, 16, 2048), Pos: a, Cigar: []CigOp{{'M', k}}, Seq: string(b)}
}

func sortInts(a []int) {
	for i := 1; i < len(a); i++ {
		for j := i; j > 0 && a[j] < a[j-1]; j-- {
			a[j], a[j-1] = a[j-1], a[j]
		}
	}
}

// ---------- scale ----------
//
// Small inputs cannot reach behaviour that changes only past some size: a fixed-size buffer or ring, a
// position stored in a narrow integer type, a block-wise fast path. A small share of the trials of every
// model-based check therefore uses sizes around the powers of two where such thresholds live.

// scaleWidth is an alignment width just below, at or a little above 2^k, k in {6,7,8,10,12,13,15,16,17,18}.
func scaleWidth(r *Rand) int {
	k := []int{6, 7, 7, 8, 8, 10, 12, 13, 15, 16, 16, 16, 17, 18}[r.Intn(14)]
	return (1 << uint(k)) + r.Range(-2, 70)
}

// scaleWidthUpTo is scaleWidth with the exponent capped.
func scaleWidthUpTo(r *Rand, maxK int) int {
	for {
		if w := scaleWidth(r); w <= (1<<uint(maxK))+70 {
			return w
		}
	}
}

// blockEdgeRuns puts short runs of non-A/C/G/T symbols right before and right after multiples of 64, 256 or
// 1024 columns (where a block-wise scan changes blocks), leaving the blocks between them untouched.
func blockEdgeRuns(r *Rand, s string) string {
	b := []byte(s)
	blk := r.PickInt(64, 64, 256, 1024)
	nb := len(b) / blk
	if nb < 1 {
		return s
	}
	for t := r.Range(1, 3); t > 0; t-- {
		e := blk * r.Range(1, nb)
		if r.P(0.8) { // a run that ends exactly on the last column of a block
			for i, k := e-1, r.Range(1, 5); k > 0 && i >= 0; i, k = i-1, k-1 {
				b[i] = "N-?R"[r.Intn(4)]
			}
		}
		s2 := blk * r.Range(e/blk, nb)
		if r.P(0.8) && s2 < len(b) { // a run that starts exactly on the first column of a (later) block
			for i, k := s2, r.Range(1, 5); k > 0 && i < len(b); i, k = i+1, k-1 {
				b[i] = "N-?Y"[r.Intn(4)]
			}
		}
	}
	return string(b)
}

// tailSNPs makes sure some of the last columns differ from the reference (a wide alignment whose
// differences all lie below the threshold it is meant to cross would test nothing).
func tailSNPs(r *Rand, ref, s string) string {
	b := []byte(s)
	for t := r.Range(1, 4); t > 0 && len(b) > 0; t-- {
		i := len(b) - 1 - r.Intn(minInt(len(b), 60))
		for k := 0; k < 4; k++ {
			if c := "ACGT"[(r.Intn(4)+k)%4]; c != upper(ref[i : i+1])[0] {
				b[i] = c
				break
			}
		}
	}
	return string(b)
}

// inflateInsertion lengthens one insertion of one record to n bases (inserting random bases into SEQ).
func inflateInsertion(r *Rand, sc *SamCase, n int) bool {
	var cand [][2]int
	for i, rec := range sc.Recs {
		if rec.Flag&(4|256) != 0 || rec.Seq == "" {
			continue
		}
		for j, op := range rec.Cigar {
			if op.Op == 'I' {
				cand = append(cand, [2]int{i, j})
			}
		}
	}
	if len(cand) == 0 {
		return false
	}
	c := cand[r.Intn(len(cand))]
	rec := &sc.Recs[c[0]]
	off := 0
	for _, op := range rec.Cigar[:c[1]] {
		switch op.Op {
		case 'M', 'I', 'S', '=', 'X':
			off += op.Len
		}
	}
	add := n - rec.Cigar[c[1]].Len
	if add <= 0 || off > len(rec.Seq) {
		return false
	}
	rec.Seq = rec.Seq[:off] + genRefSeq(r, add) + rec.Seq[off:]
	cig := append([]CigOp(nil), rec.Cigar...)
	cig[c[1]].Len = n
	rec.Cigar = cig
	return true
}

func minInt(a, b int) int {
	if a < b {
		return a
	}
	return b
}

// wideRuns keeps read chunking away from inputs of hundreds of kilobytes (every Read is a visible
// operation and most chunk modes draw a decision per read): whole-buffer reads only.
func wideRuns(rcs []RunCfg) {
	for i := range rcs {
		rcs[i].Chunk = 0 // (line-sized reads draw one decision per line: a narrowly wrapped wide file has hundreds of thousands)
	}
}

// wideLayout is a FASTA layout for very wide alignments: one line per sequence or lines of 60-80 columns.
func wideLayout(r *Rand) Layout {
	l := genLayout(r)
	l.Width = r.PickInt(0, 0, 60, 70, 80)
	return l
}

// checksumTwins returns two different ACGT sequences of width w (w >= 40) that differ in transitions only and have
// the same 32-bit CRC (IEEE or Castagnoli, chosen by the case) over their ASCII bytes or over gofasta's one-byte
// encoding of them. CRCs are affine over GF(2), so among any 33 single-site changes some subset leaves the
// checksum as it was; a random generator would need 2^32 pairs to meet one, real data sets (d^2/2 pairs) do.
// It serves as the "two different records that any 32-bit fingerprint of the usual kind takes for one" family.
func checksumTwins(r *Rand, w int) (string, string) {
	tab := crc32.MakeTable([]uint32{crc32.IEEE, crc32.Castagnoli}[r.Intn(2)])
	encoded := r.Bool()
	code := func(b byte) byte {
		if !encoded {
			return b
		}
		switch b {
		case 'A':
			return 136
		case 'G':
			return 72
		case 'C':
			return 40
		}
		return 24
	}
	flip := map[byte]byte{'A': 'G', 'G': 'A', 'C': 'T', 'T': 'C'}
	q1 := []byte(genRefSeq(r, w))
	zero := make([]byte, w)
	c0 := crc32.Checksum(zero, tab)
	// Gaussian elimination over GF(2): basis vectors with the set of sites that produced each
	var basis [32]uint32
	var sites [32]uint64
	order := r.Perm(w)
	for _, i := range order {
		if i >= 64 {
			continue
		}
		zero[i] = code(q1[i]) ^ code(flip[q1[i]])
		v, m := crc32.Checksum(zero, tab)^c0, uint64(1)<<uint(i)
		zero[i] = 0
		for b := 31; b >= 0 && v != 0; b-- {
			if v>>uint(b)&1 == 0 {
				continue
			}
			if basis[b] == 0 {
				basis[b], sites[b] = v, m
				v = 0
				m = 0
				break
			}
			v ^= basis[b]
			m ^= sites[b]
		}
		if m != 0 { // v reduced to zero: the sites in m together leave the checksum unchanged
			q2 := append([]byte(nil), q1...)
			for j := 0; j < w && j < 64; j++ {
				if m>>uint(j)&1 == 1 {
					q2[j] = flip[q1[j]]
				}
			}
			return string(q1), string(q2)
		}
	}
	return string(q1), string(q1)
}
