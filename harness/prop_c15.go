package main

import (
	"encoding/json"
	"fmt"
	"strconv"
	"strings"

	"verif/simrt"
)

// C15 — windowing, padding, wrapping and input-channel options only select or re-lay-out.
//
// Every check is a relation between two simulated runs of the real code on one input:
// the unrestricted run and the run with the option, each under its own seeded schedule.

func init() {
	register(&Prop{
		ID: "C15", Level: "exploration", Quick: 84000, Thorough: 4200000,
		Rule:  "trial = (relation kind, generated input, window / wrap width / stdin flag); relation kinds: toMultiAlign window (with and without --pad), toMultiAlign wrap, toPairAlign window, toPairAlign wrap, variants window (start alone, end alone, both), sam variants window, variants stdin-vs-file; each side of the relation runs under its own seeded schedule, thread count and read chunking; non-trivial = the option changed the output (window cuts something / wrap breaks a line / filter removes a mutation) or, for stdin, a multi-ready select occurred; distinct = distinct (input, options)",
		Gen:   genC15,
		Check: checkC15,
	})
}

var c15Kinds = []string{"toma-window", "toma-wrap", "topa-window", "topa-wrap", "variants-window", "samvariants-window", "variants-stdin", "toma-legacy-flags", "cli-vs-pkg"}

func genWindow(r *Rand, L int) (int, int) {
	s := r.Range(1, L)
	e := r.Range(s, L)
	if r.P(0.15) {
		s = 1
	}
	if r.P(0.15) {
		e = L
	}
	if r.P(0.1) {
		e = s
	}
	if r.P(0.08) {
		s, e = 1, L // the whole reference: still a window (insertion columns outside it are cut)
	}
	return s, e
}

// oneBound leaves one of the two bounds unset (-1) a third of the time each
func oneBound(r *Rand, s, e int) (int, int) {
	switch r.Intn(3) {
	case 0:
		return s, -1
	case 1:
		return -1, e
	}
	return s, e
}

func genC15(r *Rand, tier string, ord int) *Trial {
	kind := c15Kinds[ord%len(c15Kinds)]
	t := &Trial{Kind: kind, Params: map[string]string{}}
	switch kind {
	case "toma-window", "toma-wrap":
		L := r.Range(4, 40)
		sc := genSam(r, samSpec{L: L, Queries: r.Range(1, 6), MaxRecs: 3, Overlap: true, Conflict: 0.05, Ins: 0.05, Del: 0.05, Skip: 0.03, Junk: 0.1, Clip: 0.2})
		t.Case = Case{Cmd: "toma", Files: map[string]string{"sam": sc.Text()}}
		t.Case.Opts = Opts{Wrap: -1, Start: -1, End: -1, Pad: r.P(0.4), Threads: 1}
		if kind == "toma-window" {
			s, e := genWindow(r, L)
			s, e = oneBound(r, s, e)
			t.Params["s"], t.Params["e"] = strconv.Itoa(s), strconv.Itoa(e)
		} else {
			t.Params["w"] = strconv.Itoa(r.PickInt(1, 2, 3, 5, 7, L-1, L, L+1, 60))
			if r.P(0.3) {
				s, e := genWindow(r, L)
				t.Case.Opts.Start, t.Case.Opts.End = s, e
			}
		}
	case "toma-legacy-flags":
		// through the real cobra command line: --trim/--trimstart/--trimend (0-based, half open) vs --start/--end
		L := r.Range(4, 40)
		sc := genSam(r, samSpec{L: L, Queries: r.Range(1, 6), MaxRecs: 3, Overlap: true, Conflict: 0.05, Ins: 0.05, Del: 0.05, Skip: 0.03, Junk: 0.1, Clip: 0.2})
		t.Case = Case{Cmd: "toma", Files: map[string]string{"sam": sc.Text()}}
		t.Case.Opts = Opts{Wrap: -1, Start: -1, End: -1, Pad: r.P(0.4), Threads: 1}
		s, e := genWindow(r, L)
		switch r.Intn(3) {
		case 0:
			s = -1
		case 1:
			e = -1
		}
		t.Params["s"], t.Params["e"] = strconv.Itoa(s), strconv.Itoa(e)
		if r.Bool() {
			t.Params["trimflag"] = "1"
		}
	case "cli-vs-pkg":
		form := []string{"toma", "topa-stdout", "topa-dir", "variants", "samvariants", "snps", "snps-agg", "closest", "closestn", "updownlist", "topranking", "variants-stdin", "variants-annoref"}[r.Intn(13)]
		t.Case = *genCmdCase(r, form, caseSize{})
		t.Params["form"] = form
	case "topa-window", "topa-wrap":
		L := r.Range(4, 40)
		sc := genSam(r, samSpec{L: L, Queries: r.Range(1, 6), MaxRecs: 1, Ins: 0.08, Del: 0.05, Skip: 0.03, Junk: 0.1, Clip: 0.2, InsDisjoint: true, EdgeIns: 0.15})
		t.Case = Case{Cmd: "topa", Files: map[string]string{"sam": sc.Text(), "ref": ">ref\n" + sc.RefSeq + "\n"}}
		t.Case.Opts = Opts{Wrap: -1, Start: -1, End: -1, OutDir: r.Pick("stdout", "outdir"), OmitRef: r.P(0.3), OmitIns: r.P(0.3), Threads: 1}
		if kind == "topa-window" {
			s, e := genWindow(r, L)
			s, e = oneBound(r, s, e)
			t.Params["s"], t.Params["e"] = strconv.Itoa(s), strconv.Itoa(e)
			t.Case.Opts.OmitRef = false // the cut is defined through the reference row
		} else {
			t.Params["w"] = strconv.Itoa(r.PickInt(1, 2, 3, 5, 7, L, L+1, 60))
		}
	case "variants-window", "variants-stdin", "samvariants-window":
		var c *Case
		var ref string
		var an Anno
		if kind == "samvariants-window" {
			L := r.Range(6, 40)
			sc := genSam(r, samSpec{L: L, Queries: r.Range(1, 6), MaxRecs: 1, Ins: 0.06, Del: 0.06, Junk: 0.1, Clip: 0.2, InsDisjoint: true})
			ref = sc.RefSeq
			an = genAnno(r, ref, true, 0.1)
			c = &Case{Cmd: "samvariants", Files: map[string]string{"sam": sc.Text(), "ref": ">ref\n" + ref + "\n"}}
			c.Opts.RefFromFile = true
		} else {
			w := r.Range(6, 40)
			var q Aln
			nseq := r.Range(1, 7)
			if kind == "variants-stdin" && r.P(0.15) {
				nseq = r.Range(49, 60) // the stdin path hands over the first record through a 50+threads buffer
			}
			ref, _, q = genUpdownAln(r, w, 0, nseq)
			an = genAnno(r, ref, true, 0.1)
			all := Aln{Names: append([]string{"ref"}, q.Names...), Seqs: append([]string{ref}, q.Seqs...)}
			if kind == "variants-stdin" && r.P(0.2) {
				// the reference's name again further down (cat ref.fa aln.fa, where aln.fa already holds the reference)
				k := r.Range(1, len(all.Names))
				dup := ref
				if r.P(0.3) {
					dup = all.Seqs[r.Intn(len(all.Seqs))]
				}
				all.Names = append(all.Names[:k:k], append([]string{"ref"}, all.Names[k:]...)...)
				all.Seqs = append(all.Seqs[:k:k], append([]string{dup}, all.Seqs[k:]...)...)
			}
			c = &Case{Cmd: "variants", Files: map[string]string{"msa": all.FASTA(genLayout(r))}}
			c.Opts.RefID = "ref"
		}
		if r.Bool() {
			c.Files["anno"], c.Opts.AnnoSuffix = an.GenBank(ref), "gb"
		} else {
			c.Files["anno"], c.Opts.AnnoSuffix = an.GFF(ref, true), "gff"
		}
		c.Opts.Start, c.Opts.End = -1, -1
		c.Opts.AppendSNP = r.P(0.3)
		c.Opts.Threads = 1
		t.Case = *c
		if kind != "variants-stdin" {
			s, e := genWindow(r, len(ref))
			switch r.Intn(3) {
			case 0:
				e = -1
			case 1:
				s = -1
			}
			t.Params["s"], t.Params["e"] = strconv.Itoa(s), strconv.Itoa(e)
			b, _ := json.Marshal(an)
			t.Params["anno"] = string(b)
			if r.Bool() {
				t.Params["cli"] = "1"
			}
		} else {
			t.Case.Opts.Aggregate = r.P(0.3)
		}
	}
	n := 2
	if kind == "variants-stdin" {
		n = 5
	}
	t.Runs = genRunCfgs(r, n)
	return t
}

type faRec struct{ name, seq string }

func parseOutFasta(s string) []faRec {
	var out []faRec
	for _, l := range strings.Split(strings.TrimSuffix(s, "\n"), "\n") {
		if strings.HasPrefix(l, ">") {
			out = append(out, faRec{name: l[1:]})
		} else if len(out) > 0 {
			out[len(out)-1].seq += l
		}
	}
	return out
}

// rewrap re-breaks every sequence of a one-line-per-sequence FASTA text at w characters.
func rewrap(s string, w int) string {
	var sb strings.Builder
	for _, l := range strings.Split(strings.TrimSuffix(s, "\n"), "\n") {
		if strings.HasPrefix(l, ">") || len(l) == 0 {
			sb.WriteString(l + "\n")
			continue
		}
		for i := 0; i < len(l); i += w {
			e := i + w
			if e > len(l) {
				e = len(l)
			}
			sb.WriteString(l[i:e] + "\n")
		}
	}
	return sb.String()
}

func atoi(s string) int { n, _ := strconv.Atoi(s); return n }

func checkC15(t *Trial, ctx *Ctx) *Failure {
	base := t.Case
	b := ctx.Run(t, 0, &base)
	if b.Out.Kind != simrt.Returned || b.Err != nil {
		ctx.Discard("unrestricted run did not succeed: " + t.Kind + ": " + firstLine(b.Describe()))
		return nil
	}
	fail := func(what, detail string, res *Result) *Failure {
		return &Failure{Class: fmt.Sprintf("C15/%s{%s}", what, t.Kind), Detail: fmt.Sprintf("%s\noptions: %v\n--- unrestricted run:\n%s--- run with the option (%s):\n%s", detail, t.Params, b.outputKey(), res.Describe(), res.outputKey())}
	}
	mustOK := func(res *Result) *Failure {
		if res.Out.Kind != simrt.Returned || res.Err != nil {
			return fail("option-run-failed", "the unrestricted run succeeded but the run with the option did not", res)
		}
		return nil
	}
	switch t.Kind {
	case "toma-window":
		s, e := atoi(t.Params["s"]), atoi(t.Params["e"])
		v := t.Case
		v.Opts.Start, v.Opts.End = s, e
		res := ctx.Run(t, 1, &v)
		if f := mustOK(res); f != nil {
			return f
		}
		want := parseOutFasta(string(b.Stdout))
		got := parseOutFasta(string(res.Stdout))
		if len(want) != len(got) {
			return fail("window", "different number of records", res)
		}
		for i := range want {
			if s < 0 { // a bound that is not given is the end of the reference
				s = 1
			}
			if e < 0 {
				e = len(want[i].seq)
			}
			exp := want[i].seq[s-1 : e]
			if t.Case.Opts.Pad {
				x := []byte(want[i].seq)
				for j := range x {
					if j < s-1 || j >= e {
						x[j] = 'N'
					}
				}
				exp = string(x)
			}
			if got[i].name != want[i].name || got[i].seq != exp {
				return fail("window", fmt.Sprintf("record %d (%s): expected %s", i, want[i].name, exp), res)
			}
			if exp != want[i].seq {
				ctx.Nontrivial()
			}
		}
	case "toma-wrap", "topa-wrap":
		w := atoi(t.Params["w"])
		v := t.Case
		v.Opts.Wrap = w
		res := ctx.Run(t, 1, &v)
		if f := mustOK(res); f != nil {
			return f
		}
		if len(b.Files) > 0 {
			for name, content := range b.Files {
				if exp := rewrap(string(content), w); string(res.Files[name]) != exp {
					return fail("wrap", "file "+name+" is not the unwrapped output re-broken at "+t.Params["w"], res)
				} else if exp != string(content) {
					ctx.Nontrivial()
				}
			}
			if len(res.Files) != len(b.Files) {
				return fail("wrap", "different set of files", res)
			}
		} else {
			exp := rewrap(string(b.Stdout), w)
			if string(res.Stdout) != exp {
				return fail("wrap", "output is not the unwrapped output re-broken at "+t.Params["w"]+"; expected:\n"+exp, res)
			}
			if exp != string(b.Stdout) {
				ctx.Nontrivial()
			}
		}
	case "topa-window":
		s, e := atoi(t.Params["s"]), atoi(t.Params["e"])
		v := t.Case
		v.Opts.Start, v.Opts.End = s, e
		res := ctx.Run(t, 1, &v)
		if f := mustOK(res); f != nil {
			return f
		}
		cut := func(text string) (string, bool) {
			recs := parseOutFasta(text)
			var sb strings.Builder
			changed := false
			for i := 0; i+1 < len(recs); i += 2 {
				ref, q := recs[i].seq, recs[i+1].seq
				// columns of reference base s and reference base e
				cs, ce, nb := -1, -1, 0
				s, e := s, e
				if s < 0 {
					s = 1
				}
				if e < 0 {
					e = len(ref) - strings.Count(ref, "-")
				}
				for j := 0; j < len(ref); j++ {
					if ref[j] != '-' {
						nb++
						if nb == s && cs < 0 {
							cs = j
						}
						if nb == e {
							ce = j
						}
					}
				}
				if cs < 0 || ce < 0 || len(q) != len(ref) {
					return "", false
				}
				if !v.Opts.OmitRef {
					sb.WriteString(">" + recs[i].name + "\n" + ref[cs:ce+1] + "\n")
				}
				sb.WriteString(">" + recs[i+1].name + "\n" + q[cs:ce+1] + "\n")
				if cs != 0 || ce != len(ref)-1 {
					changed = true
				}
			}
			if changed {
				ctx.Nontrivial()
			}
			return sb.String(), true
		}
		if len(b.Files) > 0 {
			for name, content := range b.Files {
				exp, ok := cut(string(content))
				if !ok {
					ctx.Discard("unrestricted pair output not parseable as (ref,query) pairs")
					return nil
				}
				if string(res.Files[name]) != exp {
					return fail("window", "file "+name+": expected\n"+exp, res)
				}
			}
		} else {
			exp, ok := cut(string(b.Stdout))
			if !ok {
				ctx.Discard("unrestricted pair output not parseable as (ref,query) pairs")
				return nil
			}
			if string(res.Stdout) != exp {
				return fail("window", "expected\n"+exp, res)
			}
		}
	case "variants-window", "samvariants-window":
		s, e := atoi(t.Params["s"]), atoi(t.Params["e"])
		var an Anno
		json.Unmarshal([]byte(t.Params["anno"]), &an)
		v := t.Case
		v.Opts.Start, v.Opts.End = s, e
		vc := &v
		if t.Params["cli"] == "1" {
			// the windowed side through the real command line (flag parsing and reconciliation included)
			if cc, ok := cliCase(&v); ok {
				vc = cc
			}
		}
		res := ctx.Run(t, 1, vc)
		if f := mustOK(res); f != nil {
			return f
		}
		bl := strings.Split(strings.TrimSuffix(string(b.Stdout), "\n"), "\n")
		gl := strings.Split(strings.TrimSuffix(string(res.Stdout), "\n"), "\n")
		if len(bl) != len(gl) {
			return fail("window", "different number of rows", res)
		}
		for i := 1; i < len(bl); i++ {
			c := strings.IndexByte(bl[i], ',')
			name, muts := bl[i][:c], bl[i][c+1:]
			var keep []string
			uncertain := false
			if muts != "" {
				for _, m := range strings.Split(muts, "|") {
					p, ok := mutPos(m)
					if !ok {
						p, ok = aaPos(m, an)
						if ok {
							// an aa: record sits somewhere on its codon; which base is not part of the
							// statement, so a codon straddling a window edge decides nothing
							lo, hi := p, p+2*featStrand(m, an)
							if hi < lo {
								lo, hi = hi, lo
							}
							in := func(x int) bool { return (s < 0 || x >= s) && (e < 0 || x <= e) }
							if in(lo) != in(hi) {
								ok = false
							}
						}
					}
					if !ok {
						uncertain = true
						break
					}
					if (s < 0 || p >= s) && (e < 0 || p <= e) {
						keep = append(keep, m)
					} else {
						ctx.Nontrivial()
					}
				}
			}
			if uncertain {
				ctx.Probe("row_with_codon_across_join_or_window_edge_skipped", 1)
				continue
			}
			exp := name + "," + strings.Join(keep, "|")
			if gl[i] != exp {
				bound := "both"
				if s < 0 {
					bound = "end-alone"
				} else if e < 0 {
					bound = "start-alone"
				}
				f := fail("window-"+bound, fmt.Sprintf("row %d: expected %q, got %q", i, exp, gl[i]), res)
				return f
			}
		}
	case "toma-legacy-flags":
		s, e := atoi(t.Params["s"]), atoi(t.Params["e"])
		nw := t.Case
		nw.Opts.Start, nw.Opts.End = s, e
		cn, _ := cliCase(&nw)
		co, _ := cliCase(&t.Case) // no window flags; legacy ones are appended
		if t.Params["trimflag"] == "1" {
			co.Opts.Args = append(co.Opts.Args, "--trim")
		}
		if s > 0 {
			co.Opts.Args = append(co.Opts.Args, "--trimstart", strconv.Itoa(s-1))
		}
		if e > 0 {
			co.Opts.Args = append(co.Opts.Args, "--trimend", strconv.Itoa(e))
		}
		rn := ctx.Run(t, 0, cn)
		ro := ctx.Run(t, 1, co)
		if rn.Out.Kind != simrt.Returned || rn.Err != nil {
			ctx.Discard("new-flags run did not succeed")
			return nil
		}
		b = rn
		if f := mustOK(ro); f != nil {
			return f
		}
		if string(ro.Stdout) != string(rn.Stdout) {
			return fail("legacy-flags-differ", fmt.Sprintf("%v\n vs\n%v", cn.Opts.Args, co.Opts.Args), ro)
		}
		if string(rn.Stdout) != string(b.Stdout) || s > 1 || e > 0 {
			ctx.Nontrivial()
		}
	case "cli-vs-pkg":
		cc, ok := cliCase(&t.Case)
		if !ok {
			ctx.Discard("no command-line form for this case")
			return nil
		}
		res := ctx.Run(t, 1, cc)
		if f := mustOK(res); f != nil {
			return f
		}
		if res.outputKey() != b.outputKey() {
			return fail("command-line-differs-from-library-call", fmt.Sprintf("gofasta %v", cc.Opts.Args), res)
		}
		if _, ok := cc.Files["stdin"]; ok {
			ctx.Probe("cli_main_input_piped", 1)
		}
		ctx.Nontrivial()
	case "variants-stdin":
		for i := 1; i < len(t.Runs); i++ {
			v := t.Case
			v.Opts.Stdin = true
			res := ctx.Run(t, i, &v)
			if res.Out.Stats.SelectMultiReady > 0 {
				ctx.Nontrivial()
			}
			if f := mustOK(res); f != nil {
				t.Runs = []RunCfg{t.Runs[0], t.Runs[i]}
				return f
			}
			if string(res.Stdout) != string(b.Stdout) {
				t.Runs = []RunCfg{t.Runs[0], t.Runs[i]}
				return fail("stdin-differs-from-file", "reading the alignment from stdin (reference first) gave different output than reading the same file", res)
			}
		}
	}
	return nil
}

// aaPos gives the genomic position gofasta attributes to aa:<feature>:<R><k><Q>: the first base of
// codon k in translation order. Codons that are not three consecutive coordinates (they span a
// join) are reported as unknown.
func aaPos(m string, an Anno) (int, bool) {
	f := strings.SplitN(m, ":", 3)
	if len(f) != 3 || f[0] != "aa" {
		return 0, false
	}
	chg := f[2]
	if i := strings.IndexByte(chg, '('); i >= 0 {
		chg = chg[:i]
	}
	if len(chg) < 3 {
		return 0, false
	}
	k, err := strconv.Atoi(chg[1 : len(chg)-1])
	if err != nil {
		return 0, false
	}
	var feat *Feat
	n := 0
	for i := range an.Feats {
		name := an.Feats[i].Name
		if name == f[1] || (name == "" && "u"+an.Feats[i].ID == f[1]) {
			feat = &an.Feats[i]
			n++
		}
	}
	if feat == nil || n != 1 {
		return 0, false
	}
	pos := feat.positions()
	if 3*k > len(pos) {
		return 0, false
	}
	a, b2, c := pos[3*(k-1)], pos[3*(k-1)+1], pos[3*(k-1)+2]
	if b2-a != feat.Strand || c-b2 != feat.Strand {
		return 0, false
	}
	return a, true
}
