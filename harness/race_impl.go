package main

func raceBatchImpl(raceBin, work, tier string, seed uint64, workers int, verifDir string) ([]violationRec, map[string]interface{}) {
	return nil, map[string]interface{}{"race_build_runs": 0}
}

func raceWorkerImpl(args []string) {}
