package main

import (
	"encoding/json"
	"flag"
	"fmt"
	"os"
	"os/exec"
	"path/filepath"
	"sort"
	"strings"

	"verif/simrt"
)

// Race clause of C12. The same trials as the plain batch are executed by a -race build of the
// harness. simrt's own hand-offs create no happens-before edges (they run under RaceDisable) and
// it issues exactly the edges the Go memory model guarantees for the simulated primitives, so a
// ThreadSanitizer report is a pair of conflicting accesses in gofasta that no channel operation,
// WaitGroup or go statement orders - although the simulator executed them serially.

type raceReport struct {
	Class  string `json:"class"`
	Text   string `json:"text"`
	Replay string `json:"replay"`
}

type raceWorkerOut struct {
	Runs     int          `json:"runs"`
	Trials   int          `json:"trials"`
	Races    []raceReport `json:"races"`
	Filtered int          `json:"filtered"`
}

func raceLogPath(prefix string) string { return fmt.Sprintf("%s.%d", prefix, os.Getpid()) }

func fileSize(p string) int64 {
	st, err := os.Stat(p)
	if err != nil {
		return 0
	}
	return st.Size()
}

// splitReports cuts a race log into individual reports.
func splitReports(s string) []string {
	var out []string
	parts := strings.Split(s, "==================\n")
	for _, p := range parts {
		if strings.Contains(p, "WARNING: DATA RACE") {
			out = append(out, p)
		}
	}
	return out
}

// accessFuncs returns, for each of the two accesses of a report, the innermost frame that is
// neither in the Go runtime nor in the standard library (a package path without a dot in its
// first element), i.e. the code responsible for the access.
func accessFuncs(rep string) []string {
	var out []string
	lines := strings.Split(rep, "\n")
	for i := 0; i < len(lines); i++ {
		l := lines[i]
		if !(strings.Contains(l, " at 0x") && strings.Contains(l, " by ")) {
			continue
		}
		for j := i + 1; j < len(lines); j++ {
			f := lines[j]
			if strings.TrimSpace(f) == "" {
				break
			}
			if strings.HasPrefix(f, "      ") {
				continue
			}
			fn := strings.TrimSpace(f)
			if k := strings.LastIndexByte(fn, '('); k > 0 {
				fn = fn[:k]
			}
			first := fn
			if k := strings.IndexByte(first, '/'); k >= 0 {
				first = first[:k]
			} else if k := strings.IndexByte(first, '.'); k >= 0 {
				first = first[:k] // package name only, e.g. bytes, main
			}
			isStd := !strings.Contains(first, ".") && first != "main" && first != "verif"
			if isStd {
				continue
			}
			out = append(out, fn)
			break
		}
		if len(out) == 2 {
			break
		}
	}
	return out
}

func raceWorkerImpl(args []string) {
	fs := flag.NewFlagSet("raceworker", flag.ExitOnError)
	tier := fs.String("tier", "quick", "")
	seed := fs.Uint64("seed", 1, "")
	shard := fs.Int("shard", 0, "")
	nshards := fs.Int("nshards", 1, "")
	outDir := fs.String("out", "", "")
	trials := fs.Int("trials", 100, "")
	logPrefix := fs.String("log", "", "")
	one := fs.String("replay", "", "")
	fs.Parse(args)
	if !simrt.RaceBuild {
		fatal("raceworker needs a -race build")
	}
	p := props["C12"]
	logf := raceLogPath(*logPrefix)
	out := &raceWorkerOut{}
	tapEnabled = false
	runTrial := func(t *Trial) []string {
		before := fileSize(logf)
		ctx := &Ctx{St: newStats(), quiet: true}
		checkTrial(p, t, ctx)
		out.Runs += ctx.St.Evaluations
		out.Trials++
		if fileSize(logf) == before {
			return nil
		}
		b, _ := os.ReadFile(logf)
		return splitReports(string(b[before:]))
	}
	handle := func(t *Trial, reps []string) {
		for _, rep := range reps {
			fns := accessFuncs(rep)
			internal := len(fns) == 0
			for _, f := range fns {
				if strings.HasPrefix(f, "verif/simrt.") || strings.Contains(f, "/zverif.") || strings.HasPrefix(f, "main.") {
					internal = true
				}
			}
			if internal {
				out.Filtered++
				fmt.Fprintf(os.Stderr, "harness: race report with an access inside the simulator (filtered, counts as inconclusive):\n%s\n", rep)
				continue
			}
			sort.Strings(fns)
			for i := range fns {
				fns[i] = shortFuncName(fns[i])
			}
			class := "C12/race{" + strings.Join(fns, "|") + "}"
			dup := false
			for _, r := range out.Races {
				if r.Class == class {
					dup = true
				}
			}
			if dup {
				continue
			}
			c := cloneTrial(t)
			if c.Params == nil {
				c.Params = map[string]string{}
			}
			c.Params["race"] = "1"
			c.Note = "class: " + class + "\n" + rep
			name := fmt.Sprintf("C12-race-%016x.json", mix(hashString(class), trialHash(c)))
			path := filepath.Join(*outDir, name)
			b, _ := json.MarshalIndent(c, "", " ")
			os.WriteFile(path, b, 0644)
			out.Races = append(out.Races, raceReport{Class: class, Text: rep, Replay: path})
		}
	}
	if *one != "" {
		b, err := os.ReadFile(*one)
		if err != nil {
			fatal(err)
		}
		var t Trial
		if err := json.Unmarshal(b, &t); err != nil {
			fatal(err)
		}
		reps := runTrial(&t)
		if len(reps) == 0 {
			fmt.Println("race replay: no data race reported on this trial")
			os.Exit(0)
		}
		*outDir = os.TempDir()
		handle(&t, reps)
		for _, r := range out.Races {
			fmt.Printf("CLASS %s\n%s\n", r.Class, r.Text)
			os.Remove(r.Replay)
		}
		if len(out.Races) > 0 {
			fmt.Printf("VIOLATION property=C12 replay=%s\n", *one)
			os.Exit(1)
		}
		fmt.Println("INCONCLUSIVE: only simulator-internal race reports")
		os.Exit(2)
	}
	for ord := *shard; ord < *trials; ord += *nshards {
		sub := subSeed(*seed, "C12", ord)
		r := NewRand(sub)
		t := p.Gen(r, *tier, ord)
		if t == nil {
			continue
		}
		t.Prop, t.Tier, t.Seed, t.Ordinal, t.SubSeed = "C12", *tier, *seed, ord, sub
		armWatchdog(fmt.Sprintf("C12 race ord=%d", ord))
		reps := runTrial(t)
		if len(reps) > 0 {
			handle(t, reps)
		}
	}
	if watchdog != nil {
		watchdog.Stop()
	}
	b, _ := json.Marshal(out)
	os.WriteFile(filepath.Join(*outDir, fmt.Sprintf("race%02d.json", *shard)), b, 0644)
}

func shortFuncName(f string) string {
	if i := strings.LastIndexByte(f, '/'); i >= 0 {
		f = f[i+1:]
	}
	return f
}

func raceBatchImpl(raceBin, work, tier string, seed uint64, workers int, verifDir string) ([]violationRec, map[string]interface{}) {
	trials := 3900
	if tier == "thorough" {
		trials = 78000
	}
	procs := make([]*exec.Cmd, workers)
	logPrefix := filepath.Join(work, "racelog")
	for i := 0; i < workers; i++ {
		c := exec.Command(raceBin, "raceworker", "-tier", tier, "-seed", fmt.Sprint(seed), "-shard", fmt.Sprint(i), "-nshards", fmt.Sprint(workers), "-out", work, "-trials", fmt.Sprint(trials), "-log", logPrefix)
		c.Stdout, c.Stderr = os.Stderr, os.Stderr
		c.Env = append(os.Environ(), "GORACE=halt_on_error=0 log_path="+logPrefix, "GOMAXPROCS=2")
		if err := c.Start(); err != nil {
			fatal(err)
		}
		procs[i] = c
	}
	for i, c := range procs {
		if err := c.Wait(); err != nil {
			// with halt_on_error=0 the race runtime still makes the process exit 66 if any race was reported
			if ee, ok := err.(*exec.ExitError); !ok || ee.ExitCode() != 66 {
				fmt.Fprintf(os.Stderr, "harness: race worker %d: %v\n", i, err)
				fmt.Println("INCONCLUSIVE: a race worker process failed (harness trouble, not a violation)")
				os.Exit(2)
			}
		}
	}
	total := raceWorkerOut{}
	var viols []violationRec
	seen := map[string]bool{}
	for i := 0; i < workers; i++ {
		b, err := os.ReadFile(filepath.Join(work, fmt.Sprintf("race%02d.json", i)))
		if err != nil {
			fatal(err)
		}
		var o raceWorkerOut
		json.Unmarshal(b, &o)
		total.Runs += o.Runs
		total.Trials += o.Trials
		total.Filtered += o.Filtered
		for _, r := range o.Races {
			if seen[r.Class] {
				continue
			}
			seen[r.Class] = true
			viols = append(viols, violationRec{Class: r.Class, Detail: r.Text, Replay: r.Replay, Count: 1})
		}
	}
	info := map[string]interface{}{
		"race_build_runs":             total.Runs,
		"race_build_trials":           total.Trials,
		"race_reports_in_gofasta":     len(viols),
		"race_reports_filtered_simrt": total.Filtered,
	}
	if total.Filtered > 0 {
		fmt.Printf("INCONCLUSIVE: %d race reports had an access inside the simulator itself\n", total.Filtered)
		os.Exit(2)
	}
	return viols, info
}
