package main

import (
	"fmt"
	"sort"
	"strconv"
	"strings"

	"verif/simrt"
)

// C08 — updown topranking bins, ranks and limits neighbours exactly as specified.
//
// Oracle: executable model written from the statement (classification by which sequence carries
// A/C/G/T differences from the reference the other lacks; distance = columns where both are
// A/C/G/T and differ; thresholds; per-bin order (distance, ambiguity count, file position);
// size allocation with/without fill; k-nearest-distances mode).

func init() {
	register(&Prop{
		ID: "C08", Level: "exploration", Quick: 62000, Thorough: 137728 + 4000000,
		Rule:          "two trial families: (grid) bounded-exhaustive supplies 0..3 per bin x requested sizes 0..3 per bin or --size-total 0..12 x --no-fill (137728 combinations; thorough tier: all of them, quick tier: a seeded sample of 2000), each realised as an alignment with exactly that many candidate targets per bin at varying distances and pushed through the real pipeline; (generated) random references/queries/targets with shared SNPs, multiple hits and ambiguity tracts x every option combination (--size-*, --no-fill, --dist-*, --dist-push, --threshold-pair, --threshold-target, --ignore, --table) under seeded schedules with NumCPU in {1..16}; non-trivial = at least two bins non-empty for some query, or a threshold/ignore/limit excluded a target; distinct = distinct (inputs, options)",
		ShrinkColumns: true,
		Gen:           genC08,
		Check:         checkC08,
		Required:      []string{"fill_made_up_shortfall", "threshold_pair_excluded", "threshold_target_excluded", "dist_limit_excluded", "ignored_target", "bin_capped_at_total"},
		Expected:      []string{"out_of_order_arrival"},
	})
	exhaustiveNote["C08/thorough"] = "the 137728-point grid supplies(0..3)^4 x (sizes(0..3)^4 or size-total 0..12) x no-fill is enumerated completely (trials 0..137727)"
	exhaustiveNote["C08/quick"] = "a seeded sample of 2000 points of the 137728-point grid; the thorough tier enumerates it completely"
}

const unlimited = 1 << 30

type udHit struct {
	name string
	dist int
	amb  int
	pos  int
}

type udProbe struct {
	pairExcl, targExcl, distExcl, ignored, capped, filled bool
	bins                                                  int
}

// udClassify: bin (0 same, 1 up, 2 down, 3 side), distance, passes pair threshold.
func udClassify(ref, q, t string, thresh float32) (bin, dist int, ok bool) {
	var Q, QT, T, amb int
	for j := 0; j < len(ref); j++ {
		qs := isACGT(q[j]) && q[j] != ref[j]
		ts := isACGT(t[j]) && t[j] != ref[j]
		if qs {
			switch {
			case !isACGT(t[j]):
				amb++
			case t[j] == q[j]:
				QT++
			default:
				Q++
			}
		}
		if ts {
			switch {
			case !isACGT(q[j]):
				amb++
			case q[j] == t[j]:
			default:
				T++
			}
		}
		if isACGT(q[j]) && isACGT(t[j]) && q[j] != t[j] {
			dist++
		}
	}
	if float32(amb)/float32(Q+QT+T+amb) > thresh { // --threshold-pair is a float32 flag; the proportion is compared in its precision
		return 0, 0, false
	}
	switch {
	case Q == 0 && T == 0:
		bin = 0
	case Q > 0 && T == 0:
		bin = 1
	case Q == 0 && T > 0:
		bin = 2
	default:
		bin = 3
	}
	return bin, dist, true
}

func ambCount(s string) int {
	n := 0
	for i := 0; i < len(s); i++ {
		if !isACGT(s[i]) {
			n++
		}
	}
	return n
}

// udModel computes, for one query, the four bins.
func udModel(ref, q string, targets Aln, o Opts, pb *udProbe) [4][]udHit {
	var cands [4][]udHit
	// option normalisation (documented semantics)
	var size, dlim [4]int
	switch {
	case o.SizeTotal > 0:
		size[1], size[2], size[3] = o.SizeTotal/4, o.SizeTotal/4, o.SizeTotal/4
		size[0] = o.SizeTotal - 3*(o.SizeTotal/4)
	case o.SizeUp != 0 || o.SizeDown != 0 || o.SizeSide != 0 || o.SizeSame != 0:
		size = [4]int{o.SizeSame, o.SizeUp, o.SizeDown, o.SizeSide}
	default:
		size = [4]int{unlimited, unlimited, unlimited, unlimited}
	}
	switch {
	case o.DistAll > 0:
		dlim = [4]int{0, o.DistAll, o.DistAll, o.DistAll}
	case o.DistUp != 0 || o.DistDown != 0 || o.DistSide != 0:
		dlim = [4]int{0, o.DistUp, o.DistDown, o.DistSide}
	default:
		dlim = [4]int{unlimited, unlimited, unlimited, unlimited}
	}
	total := 0
	for _, s := range size {
		if s >= unlimited {
			total = unlimited
		}
	}
	if total != unlimited {
		total = size[0] + size[1] + size[2] + size[3]
	}
	ignore := map[string]bool{}
	for _, n := range o.Ignore {
		ignore[n] = true
	}
	for ti, name := range targets.Names {
		T := targets.Seqs[ti]
		amb := ambCount(T)
		if amb > o.ThreshTarg {
			pb.targExcl = true
			continue
		}
		if ignore[name] {
			pb.ignored = true
			continue
		}
		bin, dist, ok := udClassify(ref, q, T, o.ThreshPair)
		if !ok {
			pb.pairExcl = true
			continue
		}
		if o.DistPush == 0 && dist > dlim[bin] {
			pb.distExcl = true
			continue
		}
		cands[bin] = append(cands[bin], udHit{name, dist, amb, ti})
	}
	var out [4][]udHit
	if o.DistPush > 0 {
		out[0] = cands[0]
		for b := 1; b < 4; b++ {
			ds := map[int]bool{}
			for _, h := range cands[b] {
				ds[h.dist] = true
			}
			var keys []int
			for d := range ds {
				keys = append(keys, d)
			}
			sort.Ints(keys)
			if len(keys) > o.DistPush {
				keys = keys[:o.DistPush]
			}
			keep := map[int]bool{}
			for _, d := range keys {
				keep[d] = true
			}
			for _, h := range cands[b] {
				if keep[h.dist] {
					out[b] = append(out[b], h)
				}
			}
			sort.SliceStable(out[b], func(i, j int) bool {
				x, y := out[b][i], out[b][j]
				return x.dist < y.dist || (x.dist == y.dist && x.amb < y.amb)
			})
		}
		return out
	}
	var observed [4]int
	for b := 0; b < 4; b++ {
		sort.SliceStable(cands[b], func(i, j int) bool {
			x, y := cands[b][i], cands[b][j]
			return x.dist < y.dist || (x.dist == y.dist && x.amb < y.amb)
		})
		if len(cands[b]) > total {
			cands[b] = cands[b][:total]
			pb.capped = true
		}
		observed[b] = len(cands[b])
	}
	// allocation
	var alloc [4]int
	short := false
	for b := 0; b < 4; b++ {
		alloc[b] = size[b]
		if observed[b] < size[b] {
			alloc[b] = observed[b]
			short = true
		}
	}
	if short && !o.NoFill {
		var avail [4]int
		for b := 0; b < 4; b++ {
			if observed[b] > size[b] {
				avail[b] = observed[b] - size[b]
			}
		}
		sum := func(a [4]int) int { return a[0] + a[1] + a[2] + a[3] }
	fill:
		for sum(avail) > 0 && sum(alloc) < total {
			for b := 0; b < 4; b++ {
				if sum(avail) == 0 {
					break fill
				}
				if avail[b] > 0 {
					alloc[b]++
					avail[b]--
					pb.filled = true
				}
				if sum(alloc) == total {
					break fill
				}
			}
		}
	}
	for b := 0; b < 4; b++ {
		out[b] = cands[b][:alloc[b]]
	}
	return out
}

var dirNames = [4]string{"same", "up", "down", "side"}

func udRender(qnames []string, res [][4][]udHit, table bool, sameAsSet bool) string {
	var sb strings.Builder
	if table {
		sb.WriteString("query,direction,distance,target\n")
		for qi, q := range qnames {
			for b := 0; b < 4; b++ {
				hits := res[qi][b]
				if b == 0 && sameAsSet {
					hits = append([]udHit(nil), hits...)
					sort.Slice(hits, func(i, j int) bool { return hits[i].name < hits[j].name })
				}
				for _, h := range hits {
					fmt.Fprintf(&sb, "%s,%s,%d,%s\n", q, dirNames[b], h.dist, h.name)
				}
			}
		}
		return sb.String()
	}
	sb.WriteString("query,closestsame,closestup,closestdown,closestside\n")
	for qi, q := range qnames {
		sb.WriteString(q)
		for b := 0; b < 4; b++ {
			var names []string
			for _, h := range res[qi][b] {
				names = append(names, h.name)
			}
			if b == 0 && sameAsSet {
				sort.Strings(names)
			}
			sb.WriteString("," + strings.Join(names, ";"))
		}
		sb.WriteString("\n")
	}
	return sb.String()
}

// normaliseSame re-orders the `same` column/rows of an actual output by name (push mode: order unspecified).
func normaliseSame(text string, table bool) string {
	lines := strings.Split(strings.TrimSuffix(text, "\n"), "\n")
	if !table {
		for i := 1; i < len(lines); i++ {
			f := strings.Split(lines[i], ",")
			if len(f) == 5 && f[1] != "" {
				n := strings.Split(f[1], ";")
				sort.Strings(n)
				f[1] = strings.Join(n, ";")
				lines[i] = strings.Join(f, ",")
			}
		}
		return strings.Join(lines, "\n") + "\n"
	}
	// table: sort maximal runs of "q,same,..." rows by target name
	i := 1
	for i < len(lines) {
		f := strings.Split(lines[i], ",")
		if len(f) == 4 && f[1] == "same" {
			j := i
			for j < len(lines) {
				g := strings.Split(lines[j], ",")
				if len(g) != 4 || g[1] != "same" || g[0] != f[0] {
					break
				}
				j++
			}
			run := lines[i:j]
			sort.Slice(run, func(a, b int) bool { return strings.Split(run[a], ",")[3] < strings.Split(run[b], ",")[3] })
			i = j
		} else {
			i++
		}
	}
	return strings.Join(lines, "\n") + "\n"
}

const gridPoints = 256 * (256 + 13) * 2

// gridCase realises grid point g as an alignment: query with two SNPs, and per bin exactly supply[b] candidate targets.
func gridCase(g int, r *Rand) (*Case, string) {
	nofill := g%2 == 1
	g /= 2
	sizeIdx := g % (256 + 13)
	g /= 256 + 13
	var supply [4]int
	for b := 0; b < 4; b++ {
		supply[b] = g % 4
		g /= 4
	}
	o := Opts{ThreshPair: 0.1, ThreshTarg: 10000, NoFill: nofill, QType: "fasta", TType: "fasta", Threads: 1}
	if sizeIdx < 256 {
		s := sizeIdx
		o.SizeSame, o.SizeUp, o.SizeDown, o.SizeSide = s%4, (s/4)%4, (s/16)%4, (s/64)%4
	} else {
		o.SizeTotal = sizeIdx - 256
	}
	if o.SizeTotal == 0 && o.SizeSame+o.SizeUp+o.SizeDown+o.SizeSide == 0 {
		return nil, "" // no size option at all: refused by the command (C18), not a grid point
	}
	// reference of 12 A's; query has SNPs at columns 0 and 1 (C)
	w := 12
	ref := strings.Repeat("A", w)
	mk := func(edits map[int]byte) string {
		b := []byte(ref)
		for k, v := range edits {
			b[k] = v
		}
		return string(b)
	}
	q := mk(map[int]byte{0: 'C', 1: 'C'})
	var tg Aln
	type tdef struct {
		bin int
		seq string
	}
	var defs []tdef
	for i := 0; i < supply[0]; i++ {
		s := q
		if i == 1 { // an ambiguity elsewhere: still "same", more ambiguous
			s = mk(map[int]byte{0: 'C', 1: 'C', 11: 'N'})
		}
		defs = append(defs, tdef{0, s})
	}
	for i := 0; i < supply[1]; i++ { // up: target lacks some of the query's SNPs
		e := map[int]byte{0: 'C'}
		if i == 1 {
			e = map[int]byte{}
		}
		if i == 2 {
			e = map[int]byte{1: 'C'}
		}
		defs = append(defs, tdef{1, mk(e)})
	}
	for i := 0; i < supply[2]; i++ { // down: target has extra SNPs
		e := map[int]byte{0: 'C', 1: 'C', 2 + i: 'G'}
		if i == 2 {
			e[9] = 'T'
		}
		defs = append(defs, tdef{2, mk(e)})
	}
	for i := 0; i < supply[3]; i++ { // side: lacks one, has another
		e := map[int]byte{0: 'C', 5 + i: 'T'}
		if i == 1 {
			e[1] = 'G' // different allele at a shared position
		}
		defs = append(defs, tdef{3, mk(e)})
	}
	// seeded shuffle of the file order
	for i := len(defs) - 1; i > 0; i-- {
		j := r.Intn(i + 1)
		defs[i], defs[j] = defs[j], defs[i]
	}
	for i, d := range defs {
		tg.Names = append(tg.Names, fmt.Sprintf("t%d", i+1))
		tg.Seqs = append(tg.Seqs, d.seq)
	}
	if len(defs) == 0 {
		// the target file cannot be empty: one target that is ignored
		tg.Names, tg.Seqs = []string{"tx"}, []string{ref}
		o.Ignore = []string{"tx"}
	}
	c := &Case{Cmd: "topranking", Files: map[string]string{"ref": ">ref\n" + ref + "\n", "query": ">q1\n" + q + "\n", "target": tg.FASTA(Layout{})}, Opts: o}
	return c, fmt.Sprintf("supply same/up/down/side=%v", supply)
}

func genC08(r *Rand, tier string, ord int) *Trial {
	t := &Trial{Params: map[string]string{}}
	gridTrials := 2000
	if tier == "thorough" {
		gridTrials = gridPoints
	}
	if ord < gridTrials {
		g := ord
		if tier != "thorough" {
			g = r.Intn(gridPoints)
		}
		c, note := gridCase(g, r)
		if c == nil {
			return nil
		}
		t.Kind, t.Case = "grid", *c
		t.Params["grid"] = strconv.Itoa(g) + " " + note
		rc := P0()
		rc.NumCPU = r.PickInt(1, 2, 4)
		t.Runs = []RunCfg{rc}
		return t
	}
	w := r.Range(3, 20)
	nq, nt := r.Range(1, 4), r.Range(1, 16)
	kind := "generated"
	switch {
	case r.P(0.002): // more targets than any plausible fixed-size re-ordering window; many ties (file order decides)
		w, nq, nt, kind = r.Range(2, 4), r.Range(1, 2), r.Range(1030, 1400), "generated-thousand-targets"
	case r.P(0.004):
		w, nq, nt, kind = r.Range(3, 6), r.Range(1, 3), r.Range(100, 300), "generated-hundreds-of-targets"
	case r.P(0.002): // widths around powers of two (gen.go, scale)
		w, nq, nt, kind = scaleWidthUpTo(r, 16), r.Range(1, 2), r.Range(2, 6), "generated-wide"
	}
	ref, q, tg := genUpdownAln(r, w, nq, nt)
	if kind == "generated-wide" {
		for i := range tg.Seqs {
			tg.Seqs[i] = tailSNPs(r, ref, tg.Seqs[i])
		}
	}
	layQ, layT := genLayout(r), genLayout(r)
	if kind == "generated-wide" {
		layQ, layT = wideLayout(r), wideLayout(r)
	}
	c := Case{Cmd: "topranking", Files: map[string]string{"ref": ">ref\n" + ref + "\n", "query": q.FASTA(layQ), "target": tg.FASTA(layT)}}
	c.Opts = genTROpts(r, tg.Names)
	c.Opts.QType, c.Opts.TType, c.Opts.Threads = "fasta", "fasta", 1
	if kind == "generated" && r.P(0.04) {
		// a pair whose ambiguity proportion is exactly a/s for any 1 <= a < s <= 20, and --threshold-pair = a/s:
		// the pair passes (the test is ">"), whatever way a/s rounds in the flag's precision
		sN := r.Range(2, 20)
		a := r.Range(1, sN-1)
		if w < sN {
			w = sN + r.Range(0, 4)
			ref, q, tg = genUpdownAln(r, w, nq, nt)
			c.Files["ref"] = ">ref\n" + ref + "\n"
		}
		cols := r.Perm(w)[:sN]
		qb, tb := []byte(ref), []byte(ref)
		for i, j := range cols {
			qb[j] = "ACGT"[(strings.IndexByte("ACGT", ref[j])+1+r.Intn(3))%4]
			if i < a {
				tb[j] = "N-?R"[r.Intn(4)]
			}
		}
		q.Seqs[0] = string(qb)
		tg.Seqs[r.Intn(nt)] = string(tb)
		c.Files["query"], c.Files["target"] = q.FASTA(genLayout(r)), tg.FASTA(genLayout(r))
		c.Opts.ThreshPair = float32(a) / float32(sN)
		c.Opts.Ignore = nil
		kind = "generated-threshold-boundary"
	} else if r.P(0.25) {
		// --threshold-pair exactly at the ambiguity proportion of one of the pairs (the pair passes: the test is ">")
		if amb, sum := udAmbProportion(upper(ref), upper(q.Seqs[r.Intn(nq)]), upper(tg.Seqs[r.Intn(nt)])); sum > 0 {
			c.Opts.ThreshPair = float32(amb) / float32(sum)
			if r.P(0.3) { // ... as the user would type it
				v, _ := strconv.ParseFloat(strconv.FormatFloat(float64(amb)/float64(sum), 'f', 2, 64), 32)
				c.Opts.ThreshPair = float32(v)
			}
		}
	}
	t.Kind, t.Case = kind, c
	t.Runs = genRunCfgs(r, 2)
	manyTargetRuns(r, t.Runs, kind, nt)
	return t
}

func checkC08(t *Trial, ctx *Ctx) *Failure {
	o := t.Case.Opts
	rr, _ := parseFasta(t.Case.Files["ref"])
	ref := upper(strings.Join(rr[0].seq, ""))
	toAln := func(text string) Aln {
		var a Aln
		recs, _ := parseFasta(text)
		for _, rc := range recs {
			a.Names = append(a.Names, strings.Fields(rc.head[1:])[0])
			a.Seqs = append(a.Seqs, upper(strings.Join(rc.seq, "")))
		}
		return a
	}
	q, tg := toAln(t.Case.Files["query"]), toAln(t.Case.Files["target"])
	pb := &udProbe{}
	res := make([][4][]udHit, len(q.Names))
	multiBin := false
	for qi := range q.Names {
		res[qi] = udModel(ref, q.Seqs[qi], tg, o, pb)
		nb := 0
		for b := 0; b < 4; b++ {
			if len(res[qi][b]) > 0 {
				nb++
			}
		}
		if nb >= 2 {
			multiBin = true
		}
	}
	push := o.DistPush > 0
	want := udRender(q.Names, res, o.Table, push)
	for name, hit := range map[string]bool{"fill_made_up_shortfall": pb.filled, "threshold_pair_excluded": pb.pairExcl, "threshold_target_excluded": pb.targExcl, "dist_limit_excluded": pb.distExcl, "ignored_target": pb.ignored, "bin_capped_at_total": pb.capped} {
		if hit {
			ctx.Probe(name, 1)
		}
	}
	for i := range t.Runs {
		r := ctx.Run(t, i, &t.Case)
		fail := func(what, detail string) *Failure {
			t.Runs = t.Runs[i : i+1]
			return &Failure{Class: fmt.Sprintf("C08/%s{%s}", what, t.Kind), Detail: fmt.Sprintf("%s\noptions %+v\n%s\n--- ref:\n%s--- query:\n%s--- target:\n%s--- model:\n%s--- topranking (%s):\n%s", t.Params["grid"], o, detail, t.Case.Files["ref"], t.Case.Files["query"], t.Case.Files["target"], want, r.Describe(), r.Stdout)}
		}
		if r.Out.Kind != simrt.Returned || r.Err != nil {
			return fail("valid-input-not-processed:"+r.Out.Signature(), "")
		}
		got := string(r.Stdout)
		if push {
			got = normaliseSame(got, o.Table)
		}
		if got != want {
			what := "content"
			if push {
				what = "content-push"
			}
			if lineMultiset(got) == lineMultiset(want) {
				what = "row-order"
			}
			return fail(what, firstDiff(want, got))
		}
	}
	if multiBin || pb.pairExcl || pb.targExcl || pb.distExcl || pb.ignored || pb.capped {
		ctx.Nontrivial()
	}
	return nil
}

// manyTargetRuns shapes the schedules of the many-target and wide families: one stage (the reader, one of the
// converters, the re-ordering stage, ...) is held back while hundreds of later records overtake it, on at
// least two processors; wide inputs are not read byte by byte.
func manyTargetRuns(r *Rand, rcs []RunCfg, kind string, nt int) {
	switch kind {
	case "generated-thousand-targets", "generated-hundreds-of-targets":
		scaleHorizon(rcs, 10*nt)
		for i := range rcs {
			rcs[i].Chunk = 3 * (i % 2)
			if rcs[i].NumCPU < 2 {
				rcs[i].NumCPU = r.PickInt(2, 3, 4, 8)
			}
			switch r.Intn(3) {
			case 0:
				rcs[i].Strat = simrt.Strategy{Kind: simrt.StratStarve, SwitchP: []float64{0.1, 0.3, 1}[r.Intn(3)], StarveMask: 1 << uint(r.Range(1, 8)), SelectRand: true}
			case 1:
				rcs[i].Strat = simrt.Strategy{Kind: simrt.StratPCT, Depth: r.Range(1, 3), Horizon: 8 * nt, SelectRand: true}
			}
		}
	case "generated-wide":
		wideRuns(rcs)
	}
}

// udAmbProportion is the pair's ambiguity proportion as (ambiguous consequential sites, all consequential sites).
func udAmbProportion(ref, q, t string) (amb, sum int) {
	for j := 0; j < len(ref); j++ {
		qs := isACGT(q[j]) && q[j] != ref[j]
		ts := isACGT(t[j]) && t[j] != ref[j]
		if qs {
			sum++
			if !isACGT(t[j]) {
				amb++
			}
		}
		if ts && !(isACGT(q[j]) && q[j] == t[j]) {
			sum++
			if !isACGT(q[j]) {
				amb++
			}
		}
	}
	return
}
