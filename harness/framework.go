package main

import (
	"encoding/json"
	"fmt"
	"reflect"
	"sort"

	"verif/simrt"
)

// Trial is one self-contained unit of checking: inputs, options and one RunCfg per
// simulated execution the property's Check performs. A Trial whose runs are
// Explicit is a replay file: Check is a pure function of it.
type Trial struct {
	Prop    string            `json:"prop"`
	Tier    string            `json:"tier,omitempty"`
	Seed    uint64            `json:"verif_seed"`
	Ordinal int               `json:"ordinal"`
	SubSeed uint64            `json:"subseed"`
	Kind    string            `json:"kind,omitempty"` // property-specific trial family
	Case    Case              `json:"case"`
	Runs    []RunCfg          `json:"runs"`
	Params  map[string]string `json:"params,omitempty"`
	Note    string            `json:"note,omitempty"`
}

// Failure is a property violation found by Check.
type Failure struct {
	Class  string `json:"class"`
	Detail string `json:"detail"`
}

// Inconclusive is returned (as a panic value) when the harness cannot decide: exit 2, never a violation.
type Inconclusive struct{ Why string }

// Prop is one property's check.
type Prop struct {
	ID       string
	Level    string // exploration | fault_enumeration
	Rule     string // how cases are generated and what makes one non-trivial
	Quick    int    // trials in the quick tier
	Thorough int    // trials in the thorough tier
	// Gen builds trial number ord (nil = nothing to do for this ordinal).
	Gen func(r *Rand, tier string, ord int) *Trial
	// Check executes the trial. It reports discards and probes through ctx.
	Check func(t *Trial, ctx *Ctx) *Failure
	// Shrink proposes simpler variants of the trial's case (runs are kept); nil = genericShrink.
	Shrink        func(t *Trial) []*Trial
	NoShrink      bool // the trial carries derived state that file-level reducers would desynchronise
	ShrinkColumns bool // alignment columns may be dropped from all FASTA files at once
	// Required: probes about the generated workload itself (input shapes, faults fired); if one stays
	// at zero over a whole batch the generator no longer produces what the check relies on: exit 2.
	Required []string
	// Expected: probes about what the code under test did (records overtaking each other, full
	// buffers, multi-ready selects, permuted maps). They depend on the structure of the tree being
	// checked, which a correct change may alter, so a zero is reported (stdout + evidence) but is
	// not an error.
	Expected    []string
	Assumptions []string
}

var props = map[string]*Prop{}

func register(p *Prop) { props[p.ID] = p }

// Ctx collects coverage while a trial runs.
type Ctx struct {
	Digest      uint64 // running hash of everything observable about the runs executed (determinism self-test)
	St          *Stats
	nontrivial  bool
	quiet       bool
	lastResults []*Result
}

// Stats is the mergeable coverage record of a batch.
type Stats struct {
	Trials      int               `json:"trials"`
	Evaluations int               `json:"evaluations"`
	Steps       int64             `json:"steps_total"`
	StepsHist   []int             `json:"-"`
	Outcomes    map[string]int    `json:"outcomes"`
	Strategies  map[string]int    `json:"strategies"`
	Faults      map[string]int    `json:"fault_kinds_fired"`
	Probes      map[string]int    `json:"probes"`
	Discards    map[string]int    `json:"discards"`
	Threads     map[string]int    `json:"threads_hist"`
	NumCPU      map[string]int    `json:"numcpu_hist"`
	Kinds       map[string]int    `json:"trial_kinds"`
	Cmds        map[string]int    `json:"commands"`
	Nontrivial  map[uint64]bool   `json:"-"`
	Traces      map[uint64]bool   `json:"-"`
	Partials    map[uint64]bool   `json:"-"`
	Samples     []json.RawMessage `json:"samples"`
	KnownHits   map[string]int    `json:"known_finding_hits"`
	StepLimit   int               `json:"step_limit_runs"`
}

func newStats() *Stats {
	return &Stats{Outcomes: map[string]int{}, Strategies: map[string]int{}, Faults: map[string]int{}, Probes: map[string]int{}, Discards: map[string]int{},
		Threads: map[string]int{}, NumCPU: map[string]int{}, Kinds: map[string]int{}, Cmds: map[string]int{}, Nontrivial: map[uint64]bool{}, Traces: map[uint64]bool{}, Partials: map[uint64]bool{}, KnownHits: map[string]int{}}
}

// distinct-case / trace sets are capped (memory): a worker keeps at most maxHashes entries per set,
// the master at most 32x that; when a cap is reached the reported distinct counts are lower bounds.
var maxHashes = 2000000

func addHash(m map[uint64]bool, h uint64) {
	if len(m) < maxHashes {
		m[h] = true
	}
}

func (c *Ctx) Probe(name string, n int) {
	if n != 0 {
		c.St.Probes[name] += n
	}
}
func (c *Ctx) Discard(why string) { c.St.Discards[why]++ }
func (c *Ctx) Nontrivial()        { c.nontrivial = true }

var stratNames = [...]string{"P0", "uniform", "sticky", "pct", "starve"}

// Run executes run i of the trial on the given case, records coverage and makes the run explicit.
func (c *Ctx) Run(t *Trial, i int, cs *Case) *Result {
	rc := &t.Runs[i]
	res := Exec(cs, rc)
	st := c.St
	st.Evaluations++
	st.Steps += int64(res.Out.Steps)
	if len(st.StepsHist) < 200000 {
		st.StepsHist = append(st.StepsHist, res.Out.Steps)
	}
	kind := res.Out.Kind.String()
	if res.Out.Kind == simrt.Returned && res.Err != nil {
		kind = "returned-error"
	}
	st.Outcomes[kind]++
	st.Cmds[cs.Cmd]++
	if !rc.Explicit {
		st.Strategies[stratNames[rc.Strat.Kind]]++
		if rc.Strat.Kind == simrt.StratStarve {
			st.Faults["sched_starve"]++
		}
	} else {
		st.Strategies["replay"]++
	}
	th := rc.Threads
	if th == 0 {
		th = cs.Opts.Threads
	}
	st.Threads[fmt.Sprint(th)]++
	st.NumCPU[fmt.Sprint(rc.NumCPU)]++
	for k, v := range res.Fired {
		st.Faults[k] += v
	}
	s := &res.Out.Stats
	if s.SelectNonFirst > 0 {
		st.Faults["select_pick"] += s.SelectNonFirst
	}
	if s.MapPermuted > 0 {
		st.Faults["map_order"] += s.MapPermuted
	}
	if rc.Chunk != 0 {
		st.Faults[fmt.Sprintf("read_chunk(mode%d)", rc.Chunk)]++
	}
	if rc.NumCPU > 1 {
		st.Faults["knob_numcpu"]++
	}
	if rc.MaxProcs > 0 {
		st.Faults["knob_gomaxprocs_differs_from_numcpu"]++
	}
	if th > 1 {
		st.Faults["knob_threads"]++
	}
	c.Probe("select_multi_ready", s.SelectMultiReady)
	c.Probe("error_and_done_both_ready", s.ErrAndOtherReady)
	c.Probe("sender_blocked_on_full_buffer", s.SenderBlockedFull)
	c.Probe("preemptions", s.Preemptions)
	c.Probe("rendezvous_partner_choice", s.PartnerChoices)
	c.Probe("worker_idle_at_close", s.WorkerIdleAtClose)
	c.Probe("read_split_inside_line", res.SplitLine)
	c.Probe("read_split_crlf", res.SplitCRLF)
	c.Probe("goroutines_leaked_at_return", res.Out.Leaked)
	if res.Tap != nil {
		c.Probe("out_of_order_arrival", res.Tap.outOfOrder)
		if res.Tap.maxGap >= 2 {
			c.Probe("reorder_buffer_depth_ge2", 1)
		}
	}
	if res.Out.Kind == simrt.StepLimit {
		st.StepLimit++
	}
	addHash(st.Traces, res.Out.Trace)
	addHash(st.Partials, res.Out.Partial)
	d := mix(c.Digest, res.Out.Trace)
	d = mix(d, uint64(res.Out.Steps)<<8|uint64(res.Out.Kind))
	d = mix(d, hashBytes(0, res.Stdout))
	d = mix(d, hashString(res.ErrString()))
	d = mix(d, hashString(res.Out.Signature()))
	for _, v := range res.Out.Decisions {
		d = d*1099511628211 + uint64(v)
	}
	c.Digest = d
	rc.Replay, rc.Arity, rc.Explicit = res.Out.Decisions, res.Out.Arity, true
	if rc.Replay == nil {
		rc.Replay = []int32{}
	}
	c.lastResults = append(c.lastResults, res)
	if res.Out.Diverged && !c.quiet {
		c.Probe("replay_diverged", 1)
	}
	return res
}

// tapStats watches values passing through simulated channels: a record that reaches a
// stage with an index smaller than one already seen there arrived out of input order.
type tapStats struct {
	maxIdx     map[string]int
	outOfOrder int
	maxGap     int
	sends      int
}

var idxField = map[reflect.Type]int{}

func (t *tapStats) tap(site string, v interface{}) {
	t.sends++
	rv := reflect.ValueOf(v)
	if rv.Kind() != reflect.Struct {
		return
	}
	ty := rv.Type()
	fi, ok := idxField[ty]
	if !ok {
		fi = -1
		for i := 0; i < ty.NumField(); i++ {
			n := ty.Field(i).Name
			if (n == "Idx" || n == "idx" || n == "qidx") && ty.Field(i).Type.Kind() == reflect.Int {
				fi = i
				if n != "qidx" {
					break
				}
			}
		}
		idxField[ty] = fi
	}
	if fi < 0 {
		return
	}
	idx := int(rv.Field(fi).Int())
	if t.maxIdx == nil {
		t.maxIdx = map[string]int{}
	}
	m, seen := t.maxIdx[site]
	if seen && idx < m {
		t.outOfOrder++
		if m-idx > t.maxGap {
			t.maxGap = m - idx
		}
	}
	if !seen || idx > m {
		t.maxIdx[site] = idx
	}
}

// genRunCfg draws one perturbed run configuration (swarm style).
func genRunCfg(r *Rand) RunCfg {
	rc := RunCfg{Seed: r.U64()}
	switch k := r.Intn(20); {
	case k < 1:
		rc.Strat.Kind = simrt.StratP0
	case k < 6:
		rc.Strat.Kind = simrt.StratUniform
	case k < 11:
		rc.Strat.Kind = simrt.StratSticky
		rc.Strat.SwitchP = []float64{0.05, 0.2, 0.5}[r.Intn(3)]
	case k < 15:
		rc.Strat.Kind = simrt.StratPCT
		rc.Strat.Depth = r.Range(1, 3)
		rc.Strat.Horizon = r.PickInt(30, 80, 200, 500)
	default:
		rc.Strat.Kind = simrt.StratStarve
		rc.Strat.SwitchP = []float64{0.1, 0.5, 1}[r.Intn(3)]
		rc.Strat.StarveMask = 1 << uint(r.Intn(10))
		if r.P(0.3) {
			rc.Strat.StarveMask |= 1 << uint(r.Intn(10))
		}
	}
	rc.Strat.SelectRand = r.P(0.8)
	rc.NumCPU = r.PickInt(1, 2, 3, 4, 8, 16)
	if r.P(0.12) {
		// GOMAXPROCS below the processor count (environment variable, container quota) or, rarely, above it
		rc.MaxProcs = r.Range(1, rc.NumCPU+1)
		if rc.MaxProcs == rc.NumCPU {
			rc.MaxProcs = 0
		}
	}
	rc.MapMode = r.Intn(4)
	if r.P(0.5) {
		rc.Chunk = r.Range(1, 4)
	}
	rc.Threads = r.PickInt(1, 2, 3, 4, 8)
	return rc
}

// scaleHorizon lets PCT's priority change points fall anywhere in a run of about estSteps operations,
// so that one worker can be parked while hundreds of later records overtake it.
func scaleHorizon(rcs []RunCfg, estSteps int) {
	for i := range rcs {
		if rcs[i].Strat.Kind == simrt.StratPCT && rcs[i].Strat.Horizon < estSteps {
			rcs[i].Strat.Horizon = estSteps
		}
	}
}

func genRunCfgs(r *Rand, n int) []RunCfg {
	out := make([]RunCfg, n)
	for i := range out {
		out[i] = genRunCfg(r)
	}
	return out
}

func caseHash(c *Case) uint64 {
	h := hashString(c.Cmd)
	keys := make([]string, 0, len(c.Files))
	for k := range c.Files {
		keys = append(keys, k)
	}
	sort.Strings(keys)
	for _, k := range keys {
		h = mix(h, hashString(k))
		h = mix(h, hashString(c.Files[k]))
	}
	b, _ := json.Marshal(c.Opts)
	return mix(h, hashBytes(0, b))
}

func trialHash(t *Trial) uint64 {
	h := mix(caseHash(&t.Case), hashString(t.Kind))
	keys := make([]string, 0, len(t.Params))
	for k := range t.Params {
		keys = append(keys, k)
	}
	sort.Strings(keys)
	for _, k := range keys {
		h = mix(h, hashString(k+"="+t.Params[k]))
	}
	for _, rc := range t.Runs {
		for _, f := range rc.Faults {
			h = mix(h, hashString(fmt.Sprint(f.Kind, f.Dest, f.K)))
		}
	}
	return h
}

func cloneTrial(t *Trial) *Trial {
	b, err := json.Marshal(t)
	if err != nil {
		panic(err)
	}
	var c Trial
	if err := json.Unmarshal(b, &c); err != nil {
		panic(err)
	}
	return &c
}

// checkTrial runs the property's Check, converting harness panics of type Inconclusive.
func checkTrial(p *Prop, t *Trial, ctx *Ctx) (f *Failure, inc *Inconclusive) {
	defer func() {
		if r := recover(); r != nil {
			if i, ok := r.(Inconclusive); ok {
				inc = &i
				return
			}
			panic(r)
		}
	}()
	ctx.nontrivial = false
	ctx.lastResults = ctx.lastResults[:0]
	f = p.Check(t, ctx)
	for _, res := range ctx.lastResults {
		if res.Out.Kind == simrt.StepLimit {
			return nil, &Inconclusive{"step limit reached: " + t.Case.Cmd}
		}
	}
	return f, nil
}
