//go:build !realtree

package main

import (
	"fmt"
	"strings"

	"github.com/virus-evolution/gofasta/pkg/encoding"
	"github.com/virus-evolution/gofasta/pkg/fastaio"
	"verif/simrt"
)

// C16 — FASTA reading is layout-independent, strict, total and the same in every reader.
//
// Each reader runs as a simulated goroutine against a consumer that follows the callers'
// protocol (records / error / done); the reader's input is a fault-injectable simulated
// reader with every chunking mode. Valid files: records must equal the model under every
// layout and in every reader. Arbitrary byte streams (structured mutations of valid files,
// truncations, injected read errors): the run must end by returning - never a panic, never a hang.

var decodeTable = encoding.MakeDecodingArray()

var readers = []string{"reader:plain", "reader:encode", "reader:score", "reader:list"}

func init() {
	extraCmds["reader:plain"] = runReader
	extraCmds["reader:encode"] = runReader
	extraCmds["reader:score"] = runReader
	extraCmds["reader:list"] = runReader
	register(&Prop{
		ID: "C16", Level: "exploration", Quick: 96000, Thorough: 6000000,
		Rule:     "three trial families: (valid) a generated alignment rendered under two independent layouts (line width, letter case, LF/CRLF, descriptions) is read by all four readers under seeded schedules and chunked reads, records compared with the model and with each other; (mutated) a structured mutation of a valid file (blank lines anywhere, header without ID, lone '>', unequal lengths, non-IUPAC or control byte, no leading header, empty, only newlines, whitespace, byte flips, truncation) is read by all readers and by variants' reference finder: must return (records or an error), never panic or deadlock; (read-fault) a read error injected at every byte offset class: must return an error; non-trivial = valid: >= 2 records and a read split a line; mutated/fault: the mutation applied; distinct = distinct byte streams. Seeded structured mutation, not coverage-guided fuzzing.",
		NoShrink: true,
		Gen:      genC16,
		Check:    checkC16,
		Required: []string{"read_error"},
		Expected: []string{"read_split_inside_line", "read_split_crlf"},
	})
}

// runReader is the simulated consumer program for one fastaio reader.
func runReader(c *Case, o *Opts, env *ioEnv, out *simWriter) error {
	in := env.reader("fasta", env.inputs["fasta"])
	hard := o.HardGaps
	var sb strings.Builder
	emitE := func(r fastaio.EncodedFastaRecord, scored bool) {
		// (FastaRecord.Decode concatenates strings and is quadratic in the sequence length; same table, linear)
		var db strings.Builder
		for _, b := range r.Seq {
			db.WriteString(decodeTable[b])
		}
		fmt.Fprintf(&sb, "%d\t%s\t%s\t%s", r.Idx, r.ID, r.Description, db.String())
		if scored {
			fmt.Fprintf(&sb, "\t%d\t%d,%d,%d,%d", r.Score, r.Count_A, r.Count_C, r.Count_G, r.Count_T)
		} else {
			// how the gaps of this record are encoded: 'h' = shares no base with anything (hard gap), 's' = shares a
			// base with every nucleotide (soft gap), 'x' = anything else. (The decoded text cannot tell them apart.)
			var cls [3]bool
			for _, b := range r.Seq {
				if decodeTable[b] == "-" {
					switch b & 0xF0 {
					case 0:
						cls[0] = true
					case 0xF0:
						cls[1] = true
					default:
						cls[2] = true
					}
				}
			}
			sb.WriteString("\t")
			for k, c := range "hsx" {
				if cls[k] {
					sb.WriteRune(c)
				}
			}
		}
		sb.WriteString("\n")
	}
	var err error
	switch c.Cmd {
	case "reader:list":
		var recs []fastaio.EncodedFastaRecord
		recs, err = fastaio.ReadEncodeAlignmentToList(in, hard)
		for _, r := range recs {
			emitE(r, false)
		}
	case "reader:plain":
		cFR := simrt.MakeChan[fastaio.FastaRecord](0, "harness:cFR")
		cErr := simrt.MakeChan[error](0, "harness:cErr")
		cDone := simrt.MakeChan[bool](0, "harness:cDone")
		simrt.Go("ReadAlignment@harness", func() { fastaio.ReadAlignment(in, cFR, cErr, cDone) })
		for done := false; !done; {
			var r fastaio.FastaRecord
			switch simrt.Select(cFR.RecvCase(&r, nil), cErr.RecvCase(&err, nil), cDone.RecvCase(nil, nil)) {
			case 0:
				fmt.Fprintf(&sb, "%d\t%s\t%s\t%s\n", r.Idx, r.ID, r.Description, r.Seq)
			default:
				done = true
			}
		}
	default:
		cFR := simrt.MakeChan[fastaio.EncodedFastaRecord](0, "harness:cFR")
		cErr := simrt.MakeChan[error](0, "harness:cErr")
		cDone := simrt.MakeChan[bool](0, "harness:cDone")
		scored := c.Cmd == "reader:score"
		if scored {
			simrt.Go("ReadEncodeScoreAlignment@harness", func() { fastaio.ReadEncodeScoreAlignment(in, hard, cFR, cErr, cDone) })
		} else {
			simrt.Go("ReadEncodeAlignment@harness", func() { fastaio.ReadEncodeAlignment(in, hard, cFR, cErr, cDone) })
		}
		for done := false; !done; {
			var r fastaio.EncodedFastaRecord
			switch simrt.Select(cFR.RecvCase(&r, nil), cErr.RecvCase(&err, nil), cDone.RecvCase(nil, nil)) {
			case 0:
				emitE(r, scored)
			default:
				done = true
			}
		}
	}
	out.Write([]byte(sb.String()))
	return err
}

func readerModel(a Aln, descs []string, rd string, hard bool) string {
	scored := rd == "reader:score"
	var sb strings.Builder
	for i, n := range a.Names {
		s := upper(a.Seqs[i])
		fmt.Fprintf(&sb, "%d\t%s\t%s\t%s", i, n, descs[i], s)
		if rd == "reader:encode" || rd == "reader:list" {
			// gaps are hard (compatible with nothing) exactly under the hard-gaps option, in every encoding reader
			switch {
			case !strings.Contains(s, "-"):
				sb.WriteString("\t")
			case hard:
				sb.WriteString("\th")
			default:
				sb.WriteString("\ts")
			}
		}
		if scored {
			score := 0
			var cnt [4]int
			for j := 0; j < len(s); j++ {
				m, _ := baseSet(s[j], false)
				k := 0
				for b := uint8(1); b < 16; b <<= 1 {
					if m&b != 0 {
						k++
					}
				}
				if s[j] == '-' || s[j] == '?' || s[j] == 'N' {
					k = 4
				}
				score += 12 / k
				switch s[j] {
				case 'A':
					cnt[0]++
				case 'C':
					cnt[1]++
				case 'G':
					cnt[2]++
				case 'T':
					cnt[3]++
				}
			}
			fmt.Fprintf(&sb, "\t%d\t%d,%d,%d,%d", score, cnt[0], cnt[1], cnt[2], cnt[3])
		}
		sb.WriteString("\n")
	}
	return sb.String()
}

var c16Mutations = []string{"blank_after_first_header", "blank_between_records", "blank_inside_sequence", "blank_at_start", "blank_at_end", "two_blank_lines", "header_without_id", "header_space_only", "lone_gt_last", "short_row", "long_row", "bad_symbol", "control_byte", "no_leading_header", "empty", "only_newlines", "trailing_space", "byte_flip", "truncate", "cr_only", "trailing_empty_record", "tab_header", "empty_first_record", "empty_middle_record", "random_bytes", "random_fasta_alphabet", "random_lines"}

func mutateFasta(r *Rand, text string, kind string) string {
	nl := "\n"
	if strings.Contains(text, "\r\n") {
		nl = "\r\n"
	}
	lines := strings.Split(strings.TrimSuffix(text, nl), nl)
	ins := func(i int, l string) {
		lines = append(lines[:i], append([]string{l}, lines[i:]...)...)
	}
	hdrs := []int{}
	seqs := []int{}
	for i, l := range lines {
		if strings.HasPrefix(l, ">") {
			hdrs = append(hdrs, i)
		} else {
			seqs = append(seqs, i)
		}
	}
	join := func() string { return strings.Join(lines, nl) + nl }
	switch kind {
	case "blank_after_first_header":
		ins(1, "")
	case "blank_between_records":
		if len(hdrs) > 1 {
			ins(hdrs[1+r.Intn(len(hdrs)-1)], "")
		} else {
			ins(len(lines), "")
		}
	case "blank_inside_sequence":
		if len(seqs) > 0 {
			ins(seqs[r.Intn(len(seqs))], "")
		}
	case "blank_at_start":
		ins(0, "")
	case "blank_at_end":
		return join() + nl
	case "two_blank_lines":
		i := r.Intn(len(lines) + 1)
		ins(i, "")
		ins(i, "")
	case "header_without_id":
		lines[hdrs[r.Intn(len(hdrs))]] = ">"
	case "header_space_only":
		lines[hdrs[r.Intn(len(hdrs))]] = "> "
	case "lone_gt_last":
		return join() + ">" + nl
	case "short_row":
		if len(seqs) > 0 {
			i := seqs[r.Intn(len(seqs))]
			if len(lines[i]) > 0 {
				lines[i] = lines[i][:len(lines[i])-1]
			}
		}
	case "long_row":
		if len(seqs) > 0 {
			i := seqs[r.Intn(len(seqs))]
			lines[i] += "A"
		}
	case "bad_symbol", "control_byte":
		if len(seqs) > 0 {
			i := seqs[r.Intn(len(seqs))]
			if len(lines[i]) > 0 {
				j := r.Intn(len(lines[i]))
				c := r.Pick("J", "Z", "!", "1", "*", ".", " ")
				if kind == "control_byte" {
					c = r.Pick("\x00", "\x01", "\t", "\x7f", "\xff", "\xc3\xa9")
					if r.Bool() {
						c = badSymbol(r, j, len(lines[i]))
					}
				}
				lines[i] = lines[i][:j] + c + lines[i][j+1:]
			}
		}
	case "no_leading_header":
		lines = lines[1:]
		if len(lines) == 0 {
			return ""
		}
	case "empty":
		return ""
	case "only_newlines":
		return strings.Repeat(nl, r.Range(1, 4))
	case "trailing_space":
		i := r.Intn(len(lines))
		lines[i] += r.Pick(" ", "\t", "  ")
	case "byte_flip":
		b := []byte(join())
		for k := r.Range(1, 3); k > 0; k-- {
			b[r.Intn(len(b))] = byte(r.Intn(256))
		}
		return string(b)
	case "truncate":
		s := join()
		return s[:r.Intn(len(s))]
	case "cr_only":
		return strings.Join(lines, "\r") + "\r"
	case "trailing_empty_record":
		return join() + ">last" + nl
	case "random_bytes":
		b := make([]byte, r.Range(1, 80))
		for i := range b {
			b[i] = byte(r.Intn(256))
		}
		return string(b)
	case "random_fasta_alphabet":
		const alpha = ">>\n\n\r ACGTNacgtn-?RYKMX\t.*0"
		b := make([]byte, r.Range(1, 80))
		for i := range b {
			b[i] = alpha[r.Intn(len(alpha))]
		}
		return string(b)
	case "random_lines":
		// a random sequence of plausible lines: headers, sequence lines of random widths, blanks
		var sb strings.Builder
		for k := r.Range(1, 12); k > 0; k-- {
			switch r.Intn(6) {
			case 0:
				sb.WriteString(">" + r.Pick("a", "b c", "", " ", "x\ty") + nl)
			case 1:
				sb.WriteString(nl)
			default:
				w := r.Range(0, 6)
				for j := 0; j < w; j++ {
					sb.WriteByte("ACGTN-acgtRY?"[r.Intn(13)])
				}
				sb.WriteString(nl)
			}
		}
		return sb.String()
	case "empty_first_record":
		ins(0, ">empty0")
	case "empty_middle_record":
		if len(hdrs) > 1 {
			ins(hdrs[1+r.Intn(len(hdrs)-1)], ">emptyM")
		} else {
			ins(0, ">emptyM")
		}
	case "tab_header":
		i := hdrs[r.Intn(len(hdrs))]
		lines[i] = strings.Replace(lines[i], ">", ">\t", 1)
	}
	return join()
}

func genC16(r *Rand, tier string, ord int) *Trial {
	w := genWidth(r, false)
	n := r.Range(1, 6)
	ref := genRefSeq(r, w)
	a := genAln(r, ref, alnSpec{W: w, N: n, Prof: -1, SNP: 0.2, Prefix: "s", AllN: 0.05})
	t := &Trial{Params: map[string]string{}}
	fam := ord % 4
	lay := genLayout(r)
	text := a.FASTA(lay)
	long := fam <= 1 && mix(uint64(ord), 0x16)%1200 == 7 // (hashed, so that the expensive trials spread over all worker shards)
	if long {
		// layout independence includes line width: a sequence on one very long line vs the same wrapped
		w = r.PickInt(65535, 65536, 65537, 66000)
		if r.P(0.25) {
			w = r.PickInt(1048575, 1048576, 1048577, 1100000) // a megabyte on one line (LF and CRLF differ by one byte there)
		}
		ref = genRefSeq(r, w)
		a = genAln(r, ref, alnSpec{W: w, N: 2, Prof: profN, SNP: 0.01, Prefix: "s"})
		lay = Layout{CRLF: r.P(0.3)}
		if w < 1000000 && r.P(0.4) {
			// ... and a header line (ID + description) longer than 64 KiB over short sequences
			w = r.Range(4, 40)
			ref = genRefSeq(r, w)
			a = genAln(r, ref, alnSpec{W: w, N: 2, Prof: profN, SNP: 0.1, Prefix: "s"})
			lay = Layout{Desc: true, LongDesc: r.PickInt(65530, 65536, 65537, 65544, 70000, 140000), CRLF: r.P(0.3)}
		}
		text = a.FASTA(lay)
	}
	switch {
	case fam <= 1:
		t.Kind = "valid"
		lay2 := genLayout(r)
		if long {
			t.Kind = "valid-long-line"
			lay2 = Layout{Width: 60}
			if w > 1000000 {
				lay2.Width = 8192 // (the plain-text reader concatenates line by line: quadratic in the number of lines)
			}
		}
		lay2.Desc, lay2.Sep, lay2.Lead, lay2.LongDesc = lay.Desc, lay.Sep, lay.Lead, lay.LongDesc
		t.Case = Case{Cmd: "readers", Files: map[string]string{"fasta": text, "fasta2": a.FASTA(lay2)}}
		t.Params["names"] = strings.Join(a.Names, ",")
		t.Params["seqs"] = strings.Join(a.Seqs, ",")
		hs := make([]string, len(a.Names))
		for i, n := range a.Names {
			hs[i] = lay.Header(i, n)
		}
		t.Params["headers"] = strings.Join(hs, "\x00")
		t.Runs = genRunCfgs(r, 10)
		if long {
			for i := range t.Runs {
				t.Runs[i].Chunk = []int{0, 3}[i%2] // byte-wise delivery of 150 kB would only cost time
			}
		}
	case fam == 2:
		m := c16Mutations[(ord/4)%len(c16Mutations)]
		t.Kind = "mutated:" + m
		t.Case = Case{Cmd: "readers", Files: map[string]string{"fasta": mutateFasta(r, text, m)}}
		t.Runs = genRunCfgs(r, 6)
	default:
		t.Kind = "read-fault"
		t.Case = Case{Cmd: "readers", Files: map[string]string{"fasta": text}}
		t.Runs = genRunCfgs(r, 4)
		at := r.PickInt(0, 1, len(text)/2, len(text)-1, len(text), r.Intn(len(text)+1), r.Intn(len(text)+1))
		for i := range t.Runs {
			t.Runs[i].Faults = []Fault{{Kind: "read_error", Dest: "fasta", K: at}}
		}
	}
	for i := range t.Runs {
		if t.Runs[i].Chunk == 0 && r.P(0.7) && !long {
			t.Runs[i].Chunk = r.Range(1, 4)
		}
	}
	t.Case.Opts.HardGaps = r.P(0.2)
	return t
}

func checkC16(t *Trial, ctx *Ctx) *Failure {
	hard := t.Case.Opts.HardGaps
	switch {
	case strings.HasPrefix(t.Kind, "valid"):
		names := strings.Split(t.Params["names"], ",")
		seqs := strings.Split(t.Params["seqs"], ",")
		descs := strings.Split(t.Params["headers"], "\x00")
		a := Aln{Names: names, Seqs: seqs}
		split := false
		for i := range t.Runs {
			rd := readers[i%4]
			file := "fasta"
			if i >= 4 && i < 8 || i == 9 {
				file = "fasta2"
			}
			if t.Kind == "valid-long-line" && (i == 5 || i == 6 || i == 7 || i == 9) {
				continue // gofasta's own Decode/Degap are quadratic in the row length: keep the expensive trials few
			}
			if t.Kind == "valid-long-line" && i >= 8 && len(seqs[0]) > 1000000 {
				continue // (a megabyte row through variants' Decode/Degap would take minutes)
			}
			if i >= 8 {
				// the fifth scanner: variants' reference finder must accept the file and find the last record
				rd = "variants.findReference"
				vc := Case{Cmd: "variants", Files: map[string]string{"msa": t.Case.Files[file], "anno": "##gff-version 3\n##FASTA\n>x\nACGT\n"}, Opts: Opts{RefID: names[len(names)-1], AnnoSuffix: "gff", Start: -1, End: -1}}
				res := ctx.Run(t, i, &vc)
				if res.Out.Kind != simrt.Returned {
					t.Runs = t.Runs[:i+1]
					return &Failure{Class: "C16/" + res.Out.Signature() + "{valid," + rd + "}", Detail: res.Describe()}
				}
				if res.Err != nil {
					t.Runs = t.Runs[:i+1]
					return &Failure{Class: "C16/valid-file-rejected{" + rd + "}", Detail: fmt.Sprintf("layout %s (sequence width %d): %v", file, len(seqs[0]), res.Err)}
				}
				continue
			}
			// the scoring reader is only ever used with soft gaps (closest); the completeness score of a
			// hard gap is not defined by the statement, so it is not asserted
			c := Case{Cmd: rd, Files: map[string]string{"fasta": t.Case.Files[file]}, Opts: Opts{HardGaps: hard && rd != "reader:score"}}
			res := ctx.Run(t, i, &c)
			if res.SplitLine > 0 {
				split = true
			}
			if res.Out.Kind != simrt.Returned {
				t.Runs, t.Params["only"] = t.Runs[:i+1], fmt.Sprint(i)
				return &Failure{Class: "C16/" + res.Out.Signature() + "{valid," + rd + "}", Detail: "valid file:\n" + c.Files["fasta"] + "\n" + res.Describe()}
			}
			if res.Err != nil {
				return &Failure{Class: "C16/valid-file-rejected{" + rd + "}", Detail: fmt.Sprintf("%q: %v", c.Files["fasta"], res.Err)}
			}
			want := readerModel(a, descs, rd, c.Opts.HardGaps)
			if got := string(res.Stdout); got != want {
				return &Failure{Class: "C16/records-differ-from-model{" + rd + "}", Detail: fmt.Sprintf("file %q (chunk mode %d)\n%s\n--- model:\n%s--- %s:\n%s", c.Files["fasta"], t.Runs[i].Chunk, firstDiff(want, got), want, rd, got)}
			}
		}
		if len(names) >= 2 && split {
			ctx.Nontrivial()
		}
	default:
		ctx.Nontrivial()
		var encVerdict [4]string // what each reader made of the stream: "error" or its records
		for i := range t.Runs {
			rd := readers[i%4]
			var c Case
			if i >= 4 && strings.HasPrefix(t.Kind, "mutated") {
				// the fifth reader: variants' reference finder, via variants.Variants with a feature-less GFF
				rd = "variants.findReference"
				c = Case{Cmd: "variants", Files: map[string]string{"msa": t.Case.Files["fasta"], "anno": "##gff-version 3\n##FASTA\n>x\nACGT\n"}, Opts: Opts{RefID: "s1", AnnoSuffix: "gff", Start: -1, End: -1}}
				if i == 5 {
					c.Opts.RefID = "nosuchid"
				}
			} else {
				c = Case{Cmd: rd, Files: map[string]string{"fasta": t.Case.Files["fasta"]}, Opts: Opts{HardGaps: hard}}
			}
			res := ctx.Run(t, i, &c)
			stream := t.Case.Files["fasta"]
			switch res.Out.Kind {
			case simrt.Panicked, simrt.Deadlocked:
				t.Runs = t.Runs[:i+1]
				return &Failure{Class: fmt.Sprintf("C16/%s{%s}", res.Out.Signature(), rd), Detail: fmt.Sprintf("%s on byte stream %q (%s):\n%s", rd, stream, t.Kind, res.Describe())}
			}
			if strings.HasPrefix(t.Kind, "mutated") && i < 4 {
				if res.Err != nil {
					encVerdict[i] = "error"
				} else {
					// compare records without the scoring reader's extra columns
					var sb strings.Builder
					for _, l := range strings.Split(strings.TrimSuffix(string(res.Stdout), "\n"), "\n") {
						f := strings.Split(l, "\t")
						if len(f) > 4 {
							f = f[:4]
						}
						sb.WriteString(strings.Join(f, "\t") + "\n")
					}
					encVerdict[i] = sb.String()
				}
				// strictness: a stream that certainly breaks one of the stated rules must be refused by the three
				// encoding readers (the plain-text reader keeps the bytes as they are and is exempt)
				if i >= 1 && res.Err == nil {
					if why := mustReject(stream); why != "" {
						t.Runs = t.Runs[:i+1]
						return &Failure{Class: "C16/invalid-stream-accepted{" + rd + "}", Detail: fmt.Sprintf("byte stream %q (%s): %s, but %s returned no error; records:\n%s", stream, t.Kind, why, rd, res.Stdout)}
					}
				}
				// readers 1,2,3 (streaming, scoring, list) apply the same checks to the same bytes: they must agree
				if i == 3 && (encVerdict[1] != encVerdict[2] || encVerdict[1] != encVerdict[3]) {
					short := func(v string) string {
						if v == "error" {
							return "rejected"
						}
						return fmt.Sprintf("accepted %d records", strings.Count(v, "\n"))
					}
					return &Failure{Class: "C16/encoding-readers-disagree", Detail: fmt.Sprintf("byte stream %q (%s): streaming reader %s, scoring reader %s, list reader %s", stream, t.Kind, short(encVerdict[1]), short(encVerdict[2]), short(encVerdict[3]))}
				}
			}
			if t.Kind == "read-fault" && res.Fired["read_error"] > 0 && res.Err == nil {
				t.Runs = t.Runs[:i+1]
				return &Failure{Class: "C16/read-error-swallowed{" + rd + "}", Detail: fmt.Sprintf("%s: an I/O error at byte %d of %q was not reported; records returned:\n%s", rd, t.Runs[i].Faults[0].K, stream, res.Stdout)}
			}
		}
	}
	return nil
}

// mustReject is the part of "strict" that can be decided from the bytes alone, stated independently of the
// readers: the stream starts with a header line, and either a sequence line holds a byte that is not an
// IUPAC nucleotide code, '-' or '?' (a CR directly before the LF belongs to the line end), or there are at
// least two records of different lengths. It returns the reason, or "" when the
// stream is valid or its status is not settled by these two rules.
func mustReject(stream string) string {
	if !strings.HasPrefix(stream, ">") {
		return ""
	}
	var lens []int
	for _, l := range strings.Split(stream, "\n") {
		l = strings.TrimSuffix(l, "\r")
		if strings.HasPrefix(l, ">") {
			lens = append(lens, 0)
			continue
		}
		for k := 0; k < len(l); k++ {
			if strings.IndexByte("ACGTRYSWKMBDHVNacgtryswkmbdhvn-?", l[k]) < 0 {
				return fmt.Sprintf("byte %#02x in a sequence line is not a nucleotide symbol", l[k])
			}
		}
		lens[len(lens)-1] += len(l)
	}
	for _, n := range lens[1:] {
		if n != lens[0] {
			return "records of different lengths (a header without sequence is a record of length 0)"
		}
	}
	return ""
}
