package main

import (
	"fmt"
	"strings"
)

// Feat is one coding feature of a generated annotation (kept so that oracles know the layout).
type Feat struct {
	ID     string
	Name   string // "" = unnamed (GFF only)
	Strand int    // +1 / -1
	Segs   [][2]int
	Type   string // CDS | mature_protein_region_of_CDS
}

type Anno struct {
	Feats []Feat
}

const codeTable = "FFLLSSSSYY**CC*WLLLLPPPPHHQQRRRRIIIMTTTTNNKKSSRRVVVVAAAADDEEGGGG"

func stdTranslate(nuc string) string {
	idx := func(b byte) int { return strings.IndexByte("TCAG", b) }
	var sb strings.Builder
	for i := 0; i+3 <= len(nuc); i += 3 {
		a, b, c := idx(nuc[i]), idx(nuc[i+1]), idx(nuc[i+2])
		if a < 0 || b < 0 || c < 0 {
			sb.WriteByte('X')
			continue
		}
		sb.WriteByte(codeTable[a*16+b*4+c])
	}
	return sb.String()
}

func complementStr(s string) string {
	b := []byte(s)
	for i, c := range b {
		switch c {
		case 'A':
			b[i] = 'T'
		case 'T':
			b[i] = 'A'
		case 'C':
			b[i] = 'G'
		case 'G':
			b[i] = 'C'
		}
	}
	return string(b)
}

// positions lists the feature's reference positions in translation order.
func (f Feat) positions() []int {
	var p []int
	if f.Strand > 0 {
		for _, s := range f.Segs {
			for i := s[0]; i <= s[1]; i++ {
				p = append(p, i)
			}
		}
	} else {
		for j := len(f.Segs) - 1; j >= 0; j-- {
			for i := f.Segs[j][1]; i >= f.Segs[j][0]; i-- {
				p = append(p, i)
			}
		}
	}
	return p
}

func (f Feat) start() int {
	m := f.Segs[0][0]
	for _, s := range f.Segs {
		if s[0] < m {
			m = s[0]
		}
	}
	return m
}

func (f Feat) codingSeq(ref string) string {
	var sb strings.Builder
	for _, p := range f.positions() {
		sb.WriteByte(ref[p-1])
	}
	s := sb.String()
	if f.Strand < 0 {
		s = complementStr(s)
	}
	return s
}

// genAnno draws 0..4 coding features over ref (length >= 6): forward/reverse, single/joined,
// overlapping, sharing a start, named/unnamed.
func genAnno(r *Rand, ref string, allowUnnamed bool, sameStart float64) Anno {
	L := len(ref)
	var a Anno
	n := r.Range(0, 4)
	if L < 6 {
		n = 0
	}
	for i := 0; i < n; i++ {
		f := Feat{ID: fmt.Sprintf("cds%d", i+1), Name: fmt.Sprintf("g%c", 'A'+i), Strand: 1, Type: "CDS"}
		if r.P(0.3) {
			f.Strand = -1
		}
		if allowUnnamed && r.P(0.2) {
			f.Name = ""
		}
		maxCod := L / 3
		if maxCod > 6 {
			maxCod = 6
		}
		k := r.Range(1, maxCod)
		length := 3 * k
		start := r.Range(1, L-length+1)
		if i > 0 && r.P(sameStart) {
			start = a.Feats[r.Intn(len(a.Feats))].start()
			if start+length-1 > L {
				length = 3 * ((L - start + 1) / 3)
				if length == 0 {
					continue
				}
			}
			if r.P(0.5) {
				f.Type = "mature_protein_region_of_CDS"
			}
		}
		if length >= 6 && r.P(0.3) {
			// joined: split into two segments; the second starts after a gap, adjacent, or one base back
			cut := r.Range(1, length-1)
			shift := r.PickInt(0, 1, 2, -1)
			s2 := start + cut + shift
			e2 := s2 + (length - cut) - 1
			if s2 >= 1 && e2 <= L {
				f.Segs = [][2]int{{start, start + cut - 1}, {s2, e2}}
			}
		}
		if f.Segs == nil {
			f.Segs = [][2]int{{start, start + length - 1}}
		}
		a.Feats = append(a.Feats, f)
	}
	// two features may carry the same name (two products of one gene; GFF3 does not require Names to be unique)
	if len(a.Feats) >= 2 && r.P(0.12) {
		p := r.Perm(len(a.Feats))
		if a.Feats[p[0]].Name != "" {
			a.Feats[p[1]].Name = a.Feats[p[0]].Name
		}
	}
	return a
}

func (f Feat) gbLocation() string {
	parts := make([]string, len(f.Segs))
	for i, s := range f.Segs {
		parts[i] = fmt.Sprintf("%d..%d", s[0], s[1])
	}
	loc := parts[0]
	if len(parts) > 1 {
		loc = "join(" + strings.Join(parts, ",") + ")"
	}
	if f.Strand < 0 {
		loc = "complement(" + loc + ")"
	}
	return loc
}

// GenBank renders the annotation as a GenBank flat file (unnamed features are given a name: GenBank needs /gene).
func (a Anno) GenBank(ref string) string {
	var sb strings.Builder
	fmt.Fprintf(&sb, "LOCUS       REF%18d bp ss-RNA     linear   VRL 01-JAN-2020\n", len(ref))
	sb.WriteString("DEFINITION  generated.\nFEATURES             Location/Qualifiers\n")
	fmt.Fprintf(&sb, "     source          1..%d\n                     /organism=\"generated\"\n", len(ref))
	for _, f := range a.Feats {
		name := f.Name
		if name == "" {
			name = "u" + f.ID
		}
		fmt.Fprintf(&sb, "     CDS             %s\n", f.gbLocation())
		fmt.Fprintf(&sb, "                     /gene=\"%s\"\n", name)
		sb.WriteString("                     /codon_start=1\n")
		tr := stdTranslate(f.codingSeq(ref))
		tr = strings.TrimSuffix(tr, "*")
		fmt.Fprintf(&sb, "                     /translation=\"%s\"\n", tr)
	}
	sb.WriteString("ORIGIN\n")
	low := strings.ToLower(ref)
	for i := 0; i < len(low); i += 60 {
		fmt.Fprintf(&sb, "%9d", i+1)
		for j := i; j < i+60 && j < len(low); j += 10 {
			e := j + 10
			if e > len(low) {
				e = len(low)
			}
			sb.WriteString(" " + low[j:e])
		}
		sb.WriteString("\n")
	}
	sb.WriteString("//\n")
	return sb.String()
}

// GFF renders the annotation as GFF3 with a ##FASTA section.
func (a Anno) GFF(ref string, withFasta bool) string {
	var sb strings.Builder
	sb.WriteString("##gff-version 3\n")
	fmt.Fprintf(&sb, "##sequence-region ref 1 %d\n", len(ref))
	for _, f := range a.Feats {
		strand := "+"
		if f.Strand < 0 {
			strand = "-"
		}
		for _, s := range f.Segs {
			attr := "ID=" + f.ID
			if f.Name != "" {
				attr += ";Name=" + f.Name
			}
			fmt.Fprintf(&sb, "ref\t.\t%s\t%d\t%d\t.\t%s\t0\t%s\n", f.Type, s[0], s[1], strand, attr)
		}
	}
	if withFasta {
		sb.WriteString("##FASTA\n>ref\n" + ref + "\n")
	}
	return sb.String()
}

// genDupFeature builds the situation two features of one name are really met in: a reference with a repeated
// coding segment, one feature on each copy (same Name), and queries that carry the same amino-acid change in
// the first copy, the second copy, both or neither, plus changes in the stretch between the copies. The same
// printed mutation then arises at two genome positions.
func genDupFeature(r *Rand, nseq int) (ref string, an Anno, all Aln) {
	codons := []string{"GCT", "AAA", "GAT", "CCA", "TTG", "ATG", "GGA", "CAC", "AGC", "TAC"}
	k := r.Range(2, 4)
	seg := ""
	for i := 0; i < k; i++ {
		seg += codons[r.Intn(len(codons))]
	}
	x, y, z := genRefSeq(r, r.Range(0, 4)), genRefSeq(r, r.Range(3, 9)), genRefSeq(r, r.Range(0, 4))
	ref = x + seg + y + seg + z
	s1, s2 := len(x)+1, len(x)+len(seg)+len(y)+1
	name := r.Pick("gP", "ORF1ab", "S")
	an.Feats = []Feat{
		{ID: "cds1", Name: name, Strand: 1, Type: "CDS", Segs: [][2]int{{s1, s1 + len(seg) - 1}}},
		{ID: "cds2", Name: name, Strand: 1, Type: "CDS", Segs: [][2]int{{s2, s2 + len(seg) - 1}}},
	}
	if r.P(0.3) { // a third, differently named feature somewhere
		an.Feats = append(an.Feats, Feat{ID: "cds3", Name: "gQ", Strand: 1, Type: "CDS", Segs: [][2]int{{s1, s1 + 2}}})
	}
	ci := r.Intn(k)     // the codon that changes
	off := 3*ci + 1     // its second base: always a change of amino acid
	alt := "ACGT"[(strings.IndexByte("ACGT", seg[off])+1+r.Intn(3))%4]
	all = Aln{Names: []string{"ref"}, Seqs: []string{ref}}
	for i := 0; i < nseq; i++ {
		b := []byte(ref)
		if r.Bool() {
			b[s1-1+off] = alt
		}
		if r.Bool() {
			b[s2-1+off] = alt
		}
		for j := 0; j < len(y); j++ {
			if r.P(0.25) {
				p := len(x) + len(seg) + j
				b[p] = "ACGT"[(strings.IndexByte("ACGT", ref[p])+1+r.Intn(3))%4]
			}
		}
		if r.P(0.2) {
			p := r.Intn(len(b))
			b[p] = "ACGTN"[r.Intn(5)]
		}
		all.Names = append(all.Names, fmt.Sprintf("q%d", i+1))
		all.Seqs = append(all.Seqs, string(b))
	}
	return ref, an, all
}
