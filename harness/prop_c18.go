package main

import (
	"encoding/json"
	"fmt"
	"strings"

	"verif/simrt"
)

// C18 — invalid or inconsistent input is refused with a non-zero exit, never silently.
//
// Trial = (command form, valid generated input, one corruption from the catalogue applied to one
// input file at record position first/middle/last), executed under several schedules. Oracle:
// the run must end Returned(err != nil) or Panicked (both are non-zero exits); Returned(nil) is
// "invalid input presented as success", Deadlocked is "does not terminate".
// The (form x corruption x position) grid is enumerated; base inputs and schedules are sampled.

type corruption struct {
	Kind string // see applyCorruption
	File string
	Pos  string // first | middle | last | ""
	Via  string // "pkg": a file corruption of the library form, applied before the case is turned into its command line
}

// catalogue lists, per command form, only conditions gofasta itself documents or checks.
func catalogue(form string) []corruption {
	var out []corruption
	pos := []string{"first", "middle", "last"}
	fasta := func(file string) {
		for _, p := range pos {
			out = append(out, corruption{"short_row", file, p, ""}, corruption{"long_row", file, p, ""}, corruption{"bad_symbol", file, p, ""}, corruption{"empty_row", file, p, ""})
		}
		out = append(out, corruption{"empty_file", file, "", ""}, corruption{"no_leading_header", file, "", ""})
	}
	samC := func() {
		out = append(out, corruption{"empty_file", "sam", "", ""})
		for _, p := range pos {
			out = append(out, corruption{"sam_past_end", "sam", p, ""}) // a record whose CIGAR runs past the last reference base
		}
		for _, p := range pos {
			out = append(out, corruption{"sam_missing_fields", "sam", p, ""})
		}
	}
	windows := func() {
		out = append(out, corruption{"window_start_zero", "", "", ""}, corruption{"window_start_beyond", "", "", ""}, corruption{"window_end_beyond", "", "", ""}, corruption{"window_start_gt_end", "", "", ""})
	}
	switch form {
	case "toma":
		samC()
		out = append(out, corruption{"sam_no_header", "sam", "", ""},
			corruption{"window_start_zero", "", "", ""}, corruption{"window_start_beyond", "", "", ""}, corruption{"window_end_beyond", "", "", ""}, corruption{"window_start_gt_end", "", "", ""})
	case "topa-stdout", "topa-dir":
		samC()
		out = append(out, corruption{"empty_file", "ref", "", ""}, corruption{"two_records", "ref", "", ""}, corruption{"bad_symbol", "ref", "first", ""},
			corruption{"window_start_beyond", "", "", ""}, corruption{"window_end_beyond", "", "", ""}, corruption{"window_start_gt_end", "", "", ""},
			// the reference given with --reference is not the one the reads were aligned to (its length differs from @SQ LN)
			corruption{"ref_width", "ref", "", ""}, corruption{"ref_width", "ref", "narrow", ""})
	case "samvariants":
		samC()
		out = append(out, corruption{"empty_file", "ref", "", ""}, corruption{"two_records", "ref", "", ""}, corruption{"bad_symbol", "ref", "first", ""},
			corruption{"ref_width", "ref", "", ""}, corruption{"ref_width", "ref", "narrow", ""})
		windows()
	case "variants", "variants-stdin":
		fasta("msa")
		out = append(out, corruption{"anno_suffix_unknown", "", "", ""})
		windows()
	case "samvariants-annoref":
		samC()
		out = append(out, corruption{"two_records", "anno", "", ""}, corruption{"bad_symbol", "anno", "", ""})
		windows()
	case "variants-annoref":
		fasta("msa")
		out = append(out, corruption{"anno_suffix_unknown", "", "", ""}, corruption{"ref_width", "msa", "", ""}, corruption{"ref_width", "msa", "narrow", ""}, corruption{"two_records", "anno", "", ""}, corruption{"bad_symbol", "anno", "", ""})
		windows()
	case "snps", "snps-agg", "updownlist":
		fasta("query")
		out = append(out, corruption{"empty_file", "ref", "", ""}, corruption{"bad_symbol", "ref", "first", ""}, corruption{"ref_width", "ref", "", ""})
		out = append(out, corruption{"two_records", "ref", "", ""})
	case "closest", "closestn":
		fasta("query")
		fasta("target")
		out = append(out, corruption{"width_mismatch", "target", "", ""}, corruption{"width_mismatch", "query", "", ""}, corruption{"width_mismatch", "target", "narrow", ""}, corruption{"width_mismatch", "query", "narrow", ""})
	case "topranking":
		out = append(out, corruption{"size_dist_push", "", "", ""})
		fasta("query")
		fasta("target")
		out = append(out, corruption{"empty_file", "ref", "", ""}, corruption{"two_records", "ref", "", ""}, corruption{"ref_width", "ref", "", ""}, corruption{"no_size_or_dist", "", "", ""})
	case "topranking-csv":
		for _, f := range []string{"query", "target"} {
			out = append(out, corruption{"empty_file", f, "", ""}, corruption{"csv_bad_header", f, "", ""})
			for _, p := range pos {
				out = append(out, corruption{"csv_bad_range", f, p, ""}, corruption{"csv_missing_field", f, p, ""})
			}
		}
		out = append(out, corruption{"no_size_or_dist", "", "", ""})
	// the same commands through the real cobra command line (cmd/ + gfio), where some validations live
	case "cli-variants", "cli-samvariants":
		out = append(out, corruption{"cli_anno_suffix", "", "", ""}, corruption{"cli_missing_file", "", "", ""}, corruption{"empty_file", "cli", "", ""})
	case "cli-topranking":
		out = append(out, corruption{"cli_query_suffix", "", "", ""}, corruption{"cli_target_suffix", "", "", ""}, corruption{"cli_no_reference", "", "", ""}, corruption{"cli_no_size", "", "", ""}, corruption{"cli_missing_file", "", "", ""})
	case "cli-toma":
		out = append(out, corruption{"cli_window_start_gt_end", "", "", ""}, corruption{"cli_old_and_new_flags", "", "", ""}, corruption{"cli_missing_file", "", "", ""}, corruption{"empty_file", "cli", "", ""},
			corruption{"cli_window_start_zero", "", "", ""}, corruption{"cli_window_end_zero", "", "", ""}, corruption{"cli_window_end_beyond", "", "", ""})
	case "indels":
		samC()
	case "cli-indels":
		out = append(out, corruption{"cli_missing_file", "", "", ""}, corruption{"empty_file", "cli", "", ""})
	case "cli-snps", "cli-closest", "cli-closestn", "cli-updownlist":
		out = append(out, corruption{Kind: "cli_missing_file"})
	case "cli-topa-stdout":
		out = append(out, corruption{"cli_window_start_gt_end", "", "", ""}, corruption{"cli_missing_file", "", "", ""}, corruption{"empty_file", "cli", "", ""},
			corruption{"cli_window_start_zero", "", "", ""}, corruption{"cli_window_end_zero", "", "", ""}, corruption{"cli_window_end_beyond", "", "", ""})
	}
	// an I/O error while reading any of the command's inputs, early, half-way and near the end of the file: what was read
	// until then must not be taken for the whole input
	for _, f := range formInputs[form] {
		for _, p := range pos {
			out = append(out, corruption{"read_error", f, p, ""})
		}
	}
	if strings.HasPrefix(form, "cli-") {
		// every corruption of an input file of the library form, through the real command line as well (the command
		// layer opens the files, picks readers by file name and forwards the options)
		for _, k := range catalogue(strings.TrimPrefix(form, "cli-")) {
			if k.File != "" && k.Kind != "read_error" {
				k.Via = "pkg"
				out = append(out, k)
			}
		}
	}
	return out
}

func argIndex(a []string, flag string) int {
	for i, x := range a {
		if x == flag {
			return i
		}
	}
	return -1
}

// formInputs names the input streams of each library form.
var formInputs = map[string][]string{
	"toma": {"sam"}, "topa-stdout": {"sam", "ref"}, "topa-dir": {"sam", "ref"}, "indels": {"sam"},
	"samvariants": {"sam", "ref", "anno"}, "samvariants-annoref": {"sam", "anno"},
	"variants": {"msa", "anno"}, "variants-stdin": {"msa", "anno"}, "variants-annoref": {"msa", "anno"},
	"snps": {"ref", "query"}, "snps-agg": {"ref", "query"}, "updownlist": {"ref", "query"},
	"closest": {"query", "target"}, "closestn": {"query", "target"},
	"topranking": {"query", "target", "ref"}, "topranking-csv": {"query", "target"},
}

var c18Forms = append(append([]string{}, allCmds...), "topranking-csv", "cli-variants", "cli-samvariants", "cli-topranking", "cli-toma", "cli-topa-stdout", "indels", "cli-indels", "cli-snps", "cli-closest", "cli-closestn", "cli-updownlist")

type fastaRec struct {
	head string
	seq  []string // lines
}

func parseFasta(s string) (recs []fastaRec, nl string) {
	nl = "\n"
	if strings.Contains(s, "\r\n") {
		nl = "\r\n"
	}
	for _, l := range strings.Split(strings.TrimSuffix(s, nl), nl) {
		if strings.HasPrefix(l, ">") {
			recs = append(recs, fastaRec{head: l})
		} else if len(recs) > 0 {
			recs[len(recs)-1].seq = append(recs[len(recs)-1].seq, l)
		}
	}
	return
}

func renderFasta(recs []fastaRec, nl string) string {
	var sb strings.Builder
	for _, r := range recs {
		sb.WriteString(r.head + nl)
		for _, l := range r.seq {
			sb.WriteString(l + nl)
		}
	}
	return sb.String()
}

func pickIdx(n int, pos string) int {
	switch pos {
	case "first":
		return 0
	case "last":
		return n - 1
	}
	return n / 2
}

// applyCorruption returns the corrupted case, or nil if the corruption does not apply to this input.
func applyCorruption(c *Case, k corruption, r *Rand) *Case {
	out := *c
	out.Files = map[string]string{}
	for f, v := range c.Files {
		out.Files[f] = v
	}
	text := c.Files[k.File]
	refLen := func() int {
		recs, _ := parseFasta(c.Files["ref"])
		if len(recs) == 0 {
			return 0
		}
		return len(strings.Join(recs[0].seq, ""))
	}
	if k.Kind == "bad_symbol" && k.File == "anno" {
		// the reference comes from the annotation (genbank ORIGIN / gff ##FASTA): one of its bases is not a nucleotide symbol
		lo := strings.Index(text, "\nORIGIN")
		if c.Opts.AnnoSuffix == "gff" {
			lo = strings.Index(text, "##FASTA")
			if lo >= 0 {
				lo += strings.Index(text[lo:], ">")
			}
		}
		if lo < 0 {
			return nil
		}
		lo += 1 + strings.Index(text[lo+1:], "\n") // past the ORIGIN line / the FASTA header
		var pos []int
		for i := lo; i < len(text) && text[i] != '/'; i++ {
			if strings.IndexByte("acgtACGT", text[i]) >= 0 {
				pos = append(pos, i)
			}
		}
		if len(pos) == 0 {
			return nil
		}
		i := pos[r.Intn(len(pos))]
		out.Files["anno"] = text[:i] + r.Pick("x", "j", "z", "e", "X", "J") + text[i+1:]
		return &out
	}
	anyRefLen := func() int {
		if L := samRefLen(c); L > 0 {
			return L
		}
		if L := refLen(); L > 0 {
			return L
		}
		if recs, _ := parseFasta(c.Files["msa"]); len(recs) > 0 { // the reference's own length: its row without the gap columns
			row := strings.Join(recs[0].seq, "")
			if c.Opts.RefID != "" {
				return len(row) - strings.Count(row, "-")
			}
			return len(row)
		}
		return 0
	}
	if k.Kind == "read_error" {
		return &out // the case is unchanged: the fault sits in the run configurations (genC18)
	}
	switch k.Kind {
	case "short_row", "long_row", "bad_symbol", "empty_row":
		recs, nl := parseFasta(text)
		min := 3
		if k.File == "ref" {
			min = 1
		}
		if len(recs) < min {
			return nil
		}
		i := pickIdx(len(recs), k.Pos)
		if len(recs[i].seq) == 0 {
			return nil
		}
		li := r.Intn(len(recs[i].seq))
		line := recs[i].seq[li]
		switch k.Kind {
		case "short_row":
			last := len(recs[i].seq) - 1
			l := recs[i].seq[last]
			if len(strings.Join(recs[i].seq, "")) < 2 || len(l) == 0 {
				return nil
			}
			recs[i].seq[last] = l[:len(l)-1]
		case "empty_row":
			// a header with no sequence at all: a row of length 0 among longer ones
			recs[i].seq = nil
		case "long_row":
			last := len(recs[i].seq) - 1
			recs[i].seq[last] += "A"
		case "bad_symbol":
			if len(line) == 0 {
				return nil
			}
			j := r.Intn(len(line))
			recs[i].seq[li] = line[:j] + badSymbol(r, j, len(line)) + line[j+1:]
		}
		out.Files[k.File] = renderFasta(recs, nl)
	case "empty_file":
		out.Files[k.File] = ""
	case "no_leading_header":
		recs, nl := parseFasta(text)
		if len(recs) == 0 || len(recs[0].seq) == 0 {
			return nil
		}
		out.Files[k.File] = strings.TrimPrefix(text, recs[0].head+nl)
	case "two_records":
		if k.File == "anno" {
			// the reference comes from the annotation: a gff whose ##FASTA section holds two sequences
			i := strings.Index(text, "##FASTA")
			if c.Opts.AnnoSuffix != "gff" || i < 0 {
				return nil
			}
			recs, _ := parseFasta(text[i:])
			if len(recs) != 1 {
				return nil
			}
			extra := ">" + r.Pick("ref2", "MN908947.3", "a") + "\n" + strings.Join(recs[0].seq, "") + "\n"
			if r.Bool() {
				out.Files[k.File] = strings.TrimSuffix(text, "\n") + "\n" + extra
			} else {
				j := i + strings.Index(text[i:], ">")
				out.Files[k.File] = text[:j] + extra + text[j:]
			}
			break
		}
		out.Files[k.File] = text + ">ref2\n" + strings.Repeat("A", refLen()) + "\n"
	case "ref_width":
		if k.File == "msa" {
			// every row of the msa (queries only: the reference is the annotation's sequence) is one column wider / narrower than the reference
			recs, nl := parseFasta(text)
			for i := range recs {
				if len(recs[i].seq) == 0 {
					return nil
				}
				if last := len(recs[i].seq) - 1; k.Pos == "narrow" {
					if len(recs[i].seq[last]) == 0 || len(strings.Join(recs[i].seq, "")) < 2 {
						return nil
					}
					recs[i].seq[last] = recs[i].seq[last][:len(recs[i].seq[last])-1]
				} else {
					recs[i].seq[last] += "A"
				}
			}
			out.Files[k.File] = renderFasta(recs, nl)
		} else {
			recs, nl := parseFasta(text)
			if len(recs) != 1 || len(recs[0].seq) == 0 {
				return nil
			}
			if last := len(recs[0].seq) - 1; k.Pos == "narrow" {
				if len(recs[0].seq[last]) < 2 {
					return nil
				}
				recs[0].seq[last] = recs[0].seq[last][:len(recs[0].seq[last])-1]
			} else if r.P(0.3) && len(recs[0].seq[last]) > 1 {
				// the right bases, written as an alignment row: a gap symbol inside (the CIGARs index into it all the same)
				at := r.Range(1, len(recs[0].seq[last])-1)
				recs[0].seq[last] = recs[0].seq[last][:at] + "-" + recs[0].seq[last][at:]
			} else {
				recs[0].seq[last] += "A"
			}
			out.Files[k.File] = renderFasta(recs, nl)
		}
	case "width_mismatch":
		recs, nl := parseFasta(text)
		for i := range recs {
			if len(recs[i].seq) == 0 {
				return nil
			}
			if last := len(recs[i].seq) - 1; k.Pos == "narrow" {
				if len(recs[i].seq[last]) == 0 || len(strings.Join(recs[i].seq, "")) < 2 {
					return nil
				}
				recs[i].seq[last] = recs[i].seq[last][:len(recs[i].seq[last])-1]
			} else {
				recs[i].seq[last] += "A"
			}
		}
		out.Files[k.File] = renderFasta(recs, nl)
	case "sam_no_header":
		var sb strings.Builder
		for _, l := range strings.SplitAfter(text, "\n") {
			if !strings.HasPrefix(l, "@") {
				sb.WriteString(l)
			}
		}
		out.Files["sam"] = sb.String()
	case "sam_missing_fields":
		lines := strings.SplitAfter(text, "\n")
		var recIdx []int
		for i, l := range lines {
			if l != "" && !strings.HasPrefix(l, "@") {
				recIdx = append(recIdx, i)
			}
		}
		if len(recIdx) < 3 {
			return nil
		}
		i := recIdx[pickIdx(len(recIdx), k.Pos)]
		f := strings.Split(strings.TrimSuffix(lines[i], "\n"), "\t")
		lines[i] = strings.Join(f[:8], "\t") + "\n"
		out.Files["sam"] = strings.Join(lines, "")
	case "window_start_zero":
		out.Opts.Start, out.Opts.End = 0, -1
	case "window_start_beyond":
		L := anyRefLen()
		if L == 0 {
			return nil
		}
		out.Opts.Start, out.Opts.End = L+1, -1
	case "window_end_beyond":
		L := anyRefLen()
		if L == 0 {
			return nil
		}
		out.Opts.Start, out.Opts.End = -1, L+1
	case "window_start_gt_end":
		L := anyRefLen()
		if L < 2 {
			return nil
		}
		out.Opts.End = r.Range(1, L-1)
		out.Opts.Start = r.Range(out.Opts.End+1, L)
	case "size_dist_push":
		// documented as not combinable: --size* together with --dist* when --dist-push is given
		o := &out.Opts
		o.DistPush = r.Range(1, 3)
		if r.Bool() {
			o.SizeTotal, o.SizeUp, o.SizeDown, o.SizeSide, o.SizeSame = r.Range(1, 8), 0, 0, 0, 0
		} else {
			o.SizeTotal, o.SizeUp, o.SizeDown, o.SizeSide, o.SizeSame = 0, r.Range(1, 3), r.Range(0, 3), r.Range(0, 3), r.Range(0, 3)
		}
		if r.Bool() {
			o.DistAll, o.DistUp, o.DistDown, o.DistSide = r.Range(1, 4), 0, 0, 0
		} else {
			o.DistAll, o.DistUp, o.DistDown, o.DistSide = 0, r.Range(1, 3), r.Range(0, 3), r.Range(0, 3)
		}
	case "sam_past_end":
		sc := parseSamText(text)
		L := len(sc.RefSeq)
		var idx []int
		for i, rec := range sc.Recs {
			if rec.Flag&(4|256) == 0 && len(rec.Cigar) > 0 {
				idx = append(idx, i)
			}
		}
		if len(idx) < 3 || L == 0 || c.Cmd == "indels" {
			return nil
		}
		i := idx[pickIdx(len(idx), k.Pos)]
		span := 0
		for _, op := range sc.Recs[i].Cigar {
			switch op.Op {
			case 'M', '=', 'X', 'D', 'N':
				span += op.Len
			}
		}
		if span == 0 {
			return nil
		}
		sc.Recs[i].Pos = L - span + 1 + r.Range(1, 3)
		if sc.Recs[i].Pos < 1 {
			return nil
		}
		out.Files[k.File] = sc.Text()
	case "anno_suffix_unknown":
		out.Opts.AnnoSuffix = r.Pick("gbk", "txt", "", "gff3")
	case "no_size_or_dist":
		o := &out.Opts
		o.SizeTotal, o.SizeUp, o.SizeDown, o.SizeSide, o.SizeSame = 0, 0, 0, 0, 0
		o.DistAll, o.DistUp, o.DistDown, o.DistSide, o.DistPush = 0, 0, 0, 0, 0
	case "csv_bad_header":
		out.Files[k.File] = strings.Replace(text, "query,SNPs,ambiguities,SNPcount,ambcount", r.Pick("query,SNPs,ambiguities,SNPcount", "name,SNPs,ambiguities,SNPcount,ambcount", "query,mutations,x,y,z"), 1)
		if out.Files[k.File] == text {
			return nil
		}
	case "csv_bad_range", "csv_missing_field":
		lines := strings.SplitAfter(text, "\n")
		if len(lines) < 5 { // header + 3 rows + trailing ""
			return nil
		}
		rows := len(lines) - 2
		i := 1 + pickIdx(rows, k.Pos)
		f := strings.Split(strings.TrimSuffix(lines[i], "\n"), ",")
		if len(f) != 5 {
			return nil
		}
		if k.Kind == "csv_bad_range" {
			f[2] = r.Pick("3-x", "a", "1-2-3", "4-")
		} else {
			f = f[:4]
		}
		lines[i] = strings.Join(f, ",") + "\n"
		out.Files[k.File] = strings.Join(lines, "")
	case "cli_anno_suffix", "cli_query_suffix", "cli_target_suffix":
		flag := map[string]string{"cli_anno_suffix": "-a", "cli_query_suffix": "-q", "cli_target_suffix": "-t"}[k.Kind]
		a := append([]string(nil), c.Opts.Args...)
		i := argIndex(a, flag)
		if i < 0 || i+1 >= len(a) {
			return nil
		}
		old := a[i+1]
		base := old
		if k := strings.LastIndexByte(old, '.'); k > 0 {
			base = old[:k]
		}
		nn := base + r.Pick(".txt", ".gbk", ".gff3", ".fas", "")
		a[i+1] = nn
		out.Files[nn] = out.Files[old]
		out.Opts.Args = a
	case "cli_missing_file":
		a := append([]string(nil), c.Opts.Args...)
		// one of the files the command line names (which one: drawn) does not exist
		var named []string
		for i := range a {
			if _, ok := c.Files[a[i]]; ok {
				named = append(named, a[i])
			}
		}
		if len(named) == 0 {
			return nil
		}
		delete(out.Files, named[r.Intn(len(named))])
		out.Opts.Args = a
	case "cli_no_reference":
		a := append([]string(nil), c.Opts.Args...)
		i := argIndex(a, "-r")
		if i < 0 {
			return nil
		}
		out.Opts.Args = append(a[:i:i], a[i+2:]...)
	case "cli_no_size":
		var a []string
		for i := 0; i < len(c.Opts.Args); i++ {
			x := c.Opts.Args[i]
			if strings.HasPrefix(x, "--size-") || strings.HasPrefix(x, "--dist-") {
				i++
				continue
			}
			a = append(a, x)
		}
		out.Opts.Args = a
	case "cli_window_start_gt_end":
		L := samRefLen(&Case{Files: map[string]string{"sam": c.Files["in.sam"]}})
		if L < 2 {
			return nil
		}
		e := r.Range(1, L-1)
		out.Opts.Args = append(append([]string(nil), stripFlags(c.Opts.Args, "--start", "--end")...), "--start", fmt.Sprint(r.Range(e+1, L)), "--end", fmt.Sprint(e))
	case "cli_window_start_zero", "cli_window_end_zero", "cli_window_end_beyond":
		L := samRefLen(&Case{Files: map[string]string{"sam": c.Files["in.sam"]}})
		if L < 2 {
			return nil
		}
		a := append([]string(nil), stripFlags(c.Opts.Args, "--start", "--end")...)
		switch k.Kind {
		case "cli_window_start_zero":
			a = append(a, "--start", "0")
			if r.Bool() {
				a = append(a, "--end", fmt.Sprint(r.Range(1, L)))
			}
		case "cli_window_end_zero":
			a = append(a, "--end", "0")
			if r.Bool() {
				a = append(a, "--start", fmt.Sprint(r.Range(1, L)))
			}
		default:
			a = append(a, "--end", fmt.Sprint(L+1))
		}
		out.Opts.Args = a
	case "cli_old_and_new_flags":
		out.Opts.Args = append(append([]string(nil), stripFlags(c.Opts.Args, "--start", "--end")...), "--start", "1", "--trimend", "2")
	default:
		panic("unknown corruption " + k.Kind)
	}
	if k.Kind == "empty_file" && k.File == "cli" {
		delete(out.Files, "cli")
		// the command's main input (piped or named) is empty
		found := false
		for _, x := range []string{"stdin", "in.sam", "msa.fasta", "query.fasta", "query.fa", "query.csv"} {
			if _, ok := c.Files[x]; ok {
				out.Files[x] = ""
				found = true
				break
			}
		}
		if !found {
			return nil
		}
	}
	return &out
}

func stripFlags(a []string, flags ...string) []string {
	var out []string
	for i := 0; i < len(a); i++ {
		skip := false
		for _, f := range flags {
			if a[i] == f {
				skip = true
			}
		}
		if skip {
			i++
			continue
		}
		out = append(out, a[i])
	}
	return out
}

func samRefLen(c *Case) int {
	for _, l := range strings.Split(c.Files["sam"], "\n") {
		if strings.HasPrefix(l, "@SQ") {
			var n int
			if i := strings.Index(l, "LN:"); i >= 0 {
				fmt.Sscanf(l[i+3:], "%d", &n)
			}
			return n
		}
	}
	return 0
}

// toCSVCase turns a fasta/fasta topranking case into its csv/csv form using simulated `updown list` runs.
func toCSVCase(c *Case) *Case {
	out := *c
	out.Files = map[string]string{"ref": c.Files["ref"]}
	for _, f := range []string{"query", "target"} {
		lc := &Case{Cmd: "updownlist", Files: map[string]string{"ref": c.Files["ref"], "query": c.Files[f]}}
		rc := P0()
		rc.Explicit = true
		saveTap := tapEnabled
		tapEnabled = false
		res := Exec(lc, &rc)
		tapEnabled = saveTap
		if res.Out.Kind != simrt.Returned || res.Err != nil {
			return nil
		}
		out.Files[f] = string(res.Stdout)
	}
	out.Opts.QType, out.Opts.TType = "csv", "csv"
	return &out
}

func init() {
	grid := 0
	for _, f := range c18Forms {
		grid += len(catalogue(f))
	}
	register(&Prop{
		ID: "C18", Level: "fault_enumeration", Quick: grid * 60, Thorough: grid * 2000,
		Rule:        fmt.Sprintf("the grid (command form x documented invalidity x corrupted file x record position first/middle/last) has %d points and is enumerated completely; for each point several generated valid base inputs (>= 3 records) are corrupted and executed under the baseline and seeded perturbed schedules (starve-reader/worker/caller, random, PCT) x threads x NumCPU x read chunking; non-trivial = the uncorrupted base input was accepted under the baseline schedule and the corruption applied; distinct = distinct (corrupted input, options)", grid),
		NoShrink:    true,
		Gen:         genC18,
		Check:       checkC18,
		Assumptions: []string{"exit status: a returned error becomes exit 1 in cmd/root.go, a panic is exit 2; both count as refusal", "catalogue restricted to conditions gofasta documents or checks (see DESIGN.md §7 C18)"},
	})
	exhaustiveNote["C18/quick"] = fmt.Sprintf("the %d-point grid of (form, corruption, file, position) is enumerated completely (60 base inputs per point)", grid)
	exhaustiveNote["C18/thorough"] = fmt.Sprintf("the %d-point grid of (form, corruption, file, position) is enumerated completely (2000 base inputs per point)", grid)
}

func genC18(r *Rand, tier string, ord int) *Trial {
	// ordinal -> grid point
	var form string
	var k corruption
	g := 0
	total := 0
	for _, f := range c18Forms {
		total += len(catalogue(f))
	}
	pt := ord % total
	for _, f := range c18Forms {
		cat := catalogue(f)
		if pt < g+len(cat) {
			form, k = f, cat[pt-g]
			break
		}
		g += len(cat)
	}
	var base *Case
	if form == "topranking-csv" {
		base = genCmdCase(r, "topranking", caseSize{min3: true})
		base = toCSVCase(base)
		if base == nil {
			return nil
		}
	} else if strings.HasPrefix(form, "cli-") {
		pk := genCmdCase(r, strings.TrimPrefix(form, "cli-"), caseSize{min3: true})
		var ok bool
		base, ok = cliCase(pk)
		if !ok {
			return nil
		}
		if k.Via == "pkg" {
			t := &Trial{Kind: form + "/" + k.Kind, Case: *base, Params: map[string]string{"corruption": k.Kind, "file": k.File, "pos": k.Pos, "form": form}}
			var cor *Case
			if pc := applyCorruption(pk, k, r); pc != nil {
				cor, _ = cliCase(pc)
			}
			if cor == nil {
				t.Params["inapplicable"] = "1"
				return t
			}
			n := 6
			if tier == "thorough" {
				n = 12
			}
			b := P0()
			b.Explicit = true
			t.Runs = append([]RunCfg{b, b}, genRunCfgs(r, n)...)
			cb, _ := json.Marshal(cor)
			t.Params["corrupted"] = string(cb)
			return t
		}
	} else {
		base = genCmdCase(r, form, caseSize{min3: true})
	}
	t := &Trial{Kind: form + "/" + k.Kind, Case: *base, Params: map[string]string{"corruption": k.Kind, "file": k.File, "pos": k.Pos, "form": form}}
	cor := applyCorruption(base, k, r)
	if cor == nil {
		t.Params["inapplicable"] = "1"
		return t
	}
	n := 6
	if tier == "thorough" {
		n = 12
	}
	b := P0()
	b.Explicit = true
	t.Runs = append([]RunCfg{b, b}, genRunCfgs(r, n)...)
	if k.Kind == "read_error" {
		n := len(base.Files[k.File])
		if n == 0 {
			t.Params["inapplicable"] = "1"
			return t
		}
		for i := 1; i < len(t.Runs); i++ {
			at := 0
			switch k.Pos {
			case "first":
				at = r.Intn(minInt(n, 12))
			case "middle":
				at = n/4 + r.Intn(n/2+1)
			default:
				at = n - 1 - r.Intn(minInt(n, 4))
			}
			if at >= n {
				at = n - 1
			}
			t.Runs[i].Faults = []Fault{{Kind: "read_error", Dest: k.File, K: at}}
		}
	}
	cb, _ := json.Marshal(cor)
	t.Params["corrupted"] = string(cb)
	return t
}

// c18Cases returns the valid base case and the corrupted one.
func c18Cases(t *Trial) (base, cor *Case) {
	if t.Params["corrupted"] == "" {
		return c18CasesV1(t)
	}
	var c Case
	if err := json.Unmarshal([]byte(t.Params["corrupted"]), &c); err != nil {
		panic(err)
	}
	return &t.Case, &c
}

// c18CasesV1 reads the first replay-file layout (corrupted files stored under "corrupt:<name>"),
// still used by the regression cases under /verif/findings.
func c18CasesV1(t *Trial) (base, cor *Case) {
	b := t.Case
	b.Files = map[string]string{}
	c := t.Case
	c.Files = map[string]string{}
	for f, v := range t.Case.Files {
		if strings.HasPrefix(f, "corrupt:") {
			continue
		}
		b.Files[f] = v
		c.Files[f] = v
	}
	for f, v := range t.Case.Files {
		if strings.HasPrefix(f, "corrupt:") {
			c.Files[strings.TrimPrefix(f, "corrupt:")] = v
		}
	}
	if t.Params["opts"] == "1" {
		fmt.Sscan(t.Params["start"], &c.Opts.Start)
		fmt.Sscan(t.Params["end"], &c.Opts.End)
		c.Opts.AnnoSuffix = t.Params["suffix"]
	}
	return &b, &c
}

func checkC18(t *Trial, ctx *Ctx) *Failure {
	if t.Params["inapplicable"] == "1" || len(t.Runs) < 2 {
		ctx.Discard("corruption not applicable to this base input")
		return nil
	}
	base, cor := c18Cases(t)
	b := ctx.Run(t, 0, base)
	if b.Out.Kind != simrt.Returned || b.Err != nil {
		ctx.Discard("uncorrupted base input not accepted under the baseline schedule: " + t.Params["form"])
		return nil
	}
	ctx.Nontrivial()
	for i := 1; i < len(t.Runs); i++ {
		res := ctx.Run(t, i, cor)
		if t.Params["corruption"] == "read_error" && res.Fired["read_error"] == 0 {
			ctx.Probe("read_fault_not_reached", 1) // the command did not read that far (it need not read everything)
			continue
		}
		where := fmt.Sprintf("%s,%s@%s:%s", t.Params["form"], t.Params["corruption"], t.Params["file"], t.Params["pos"])
		switch res.Out.Kind {
		case simrt.Panicked:
			ctx.Probe("refused_by_panic", 1)
			ctx.Probe("refused_by_panic:"+t.Params["form"]+"/"+t.Params["corruption"], 1)
		case simrt.Deadlocked:
			t.Runs = []RunCfg{t.Runs[0], t.Runs[i]}
			return &Failure{Class: fmt.Sprintf("C18/%s{%s,%s}", res.Out.Signature(), t.Params["form"], t.Params["corruption"]),
				Detail: fmt.Sprintf("%s: the command never terminates on this invalid input (no goroutine can proceed):\n%s", where, simrt.FormatBlocked(res.Out.Blocked))}
		case simrt.Returned:
			if res.Err == nil {
				t.Runs = []RunCfg{t.Runs[0], t.Runs[i]}
				return &Failure{Class: fmt.Sprintf("C18/accepted{%s,%s@%s:%s}", t.Params["form"], t.Params["corruption"], t.Params["file"], t.Params["pos"]),
					Detail: fmt.Sprintf("%s: invalid input accepted: returned nil (exit status 0) with %d bytes of output", where, len(res.Stdout))}
			}
			ctx.Probe("refused_by_error", 1)
		}
	}
	return nil
}

// badSymbol is a byte that is certainly not a nucleotide symbol, for column j of a sequence line of n columns:
// half of the time one of the usual suspects, otherwise any of the 256 byte values that is not an IUPAC code,
// '-' or '?' in either case, is not a line feed, does not turn the line into a header ('>' in column 0) and is
// not a carriage return in the last column (CRLF is a line end, not a symbol).
func badSymbol(r *Rand, j, n int) string {
	if r.Bool() {
		return r.Pick("J", "Z", "!", "1", "E", "*", "x")
	}
	for {
		b := byte(r.Intn(256))
		if strings.IndexByte("ACGTRYSWKMBDHVNacgtryswkmbdhvn-?\n", b) >= 0 || b == '>' && j == 0 || b == '\r' && j == n-1 {
			continue
		}
		if r.P(0.25) { // the near misses: bytes one bit away from a valid symbol
			b = "ACGTN-?"[r.Intn(7)] ^ (1 << uint(r.Intn(8)))
			if strings.IndexByte("ACGTRYSWKMBDHVNacgtryswkmbdhvn-?\n", b) >= 0 || b == '>' && j == 0 || b == '\r' && j == n-1 {
				continue
			}
		}
		return string([]byte{b})
	}
}
