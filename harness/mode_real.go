//go:build realtree

package main

const realMode = true
