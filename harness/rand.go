package main

// Rand is the harness' only source of randomness: splitmix64 seeded from a sub-seed
// derived from VERIF_SEED. It never reads a clock.
type Rand struct{ s uint64 }

func NewRand(seed uint64) *Rand { return &Rand{s: seed} }

func (r *Rand) U64() uint64 {
	r.s += 0x9e3779b97f4a7c15
	z := r.s
	z = (z ^ (z >> 30)) * 0xbf58476d1ce4e5b9
	z = (z ^ (z >> 27)) * 0x94d049bb133111eb
	return z ^ (z >> 31)
}

// Intn returns a value in [0,n); n<=1 gives 0.
func (r *Rand) Intn(n int) int {
	if n <= 1 {
		return 0
	}
	return int(r.U64() % uint64(n))
}

// Range returns a value in [lo,hi].
func (r *Rand) Range(lo, hi int) int {
	if hi <= lo {
		return lo
	}
	return lo + r.Intn(hi-lo+1)
}

func (r *Rand) Float() float64   { return float64(r.U64()>>11) / float64(1<<53) }
func (r *Rand) Bool() bool       { return r.U64()&1 == 1 }
func (r *Rand) P(p float64) bool { return r.Float() < p }

// Pick returns one of the strings.
func (r *Rand) Pick(xs ...string) string { return xs[r.Intn(len(xs))] }

// PickInt returns one of the ints.
func (r *Rand) PickInt(xs ...int) int { return xs[r.Intn(len(xs))] }

// Skewed returns a value in [lo,hi] biased towards lo.
func (r *Rand) Skewed(lo, hi int) int {
	a, b := r.Range(lo, hi), r.Range(lo, hi)
	if b < a {
		a = b
	}
	return a
}

func mix(a, b uint64) uint64 {
	x := a ^ (b + 0x9e3779b97f4a7c15 + (a << 6) + (a >> 2))
	x ^= x >> 33
	x *= 0xff51afd7ed558ccd
	x ^= x >> 33
	x *= 0xc4ceb9fe1a85ec53
	x ^= x >> 33
	return x
}

func hashString(s string) uint64 {
	var h uint64 = 14695981039346656037
	for i := 0; i < len(s); i++ {
		h ^= uint64(s[i])
		h *= 1099511628211
	}
	return h
}

func hashBytes(h uint64, b []byte) uint64 {
	if h == 0 {
		h = 14695981039346656037
	}
	for _, c := range b {
		h ^= uint64(c)
		h *= 1099511628211
	}
	return h
}

// Perm is a random permutation of 0..n-1.
func (r *Rand) Perm(n int) []int {
	p := make([]int, n)
	for i := range p {
		p[i] = i
	}
	for i := n - 1; i > 0; i-- {
		j := r.Intn(i + 1)
		p[i], p[j] = p[j], p[i]
	}
	return p
}
