package main

import "time"

// Minimisation: bounded, class-preserving. A candidate is accepted only if Check
// fails with the same class. Because replay lists tolerate any code path (missing
// decisions are 0 = baseline policy, out-of-range values wrap), every candidate is
// a valid schedule, and an accepted candidate is re-recorded exactly by Ctx.Run.

type minimiser struct {
	p        *Prop
	class    string
	budget   int
	tries    int
	deadline time.Time
}

func (m *minimiser) fails(t *Trial) (*Trial, bool) {
	// bounded in re-executions and in wall clock (the clock only decides when to stop simplifying;
	// whatever has been accepted by then is a complete, exactly replayable failing trial)
	if m.tries >= m.budget || time.Now().After(m.deadline) {
		m.tries = m.budget
		return nil, false
	}
	m.tries++
	c := cloneTrial(t)
	ctx := &Ctx{St: newStats(), quiet: true}
	f, inc := checkTrial(m.p, c, ctx)
	if inc != nil || f == nil || f.Class != m.class {
		return nil, false
	}
	return c, true
}

func nonZero(d []int32) int {
	n := 0
	for _, v := range d {
		if v != 0 {
			n++
		}
	}
	return n
}

func totalNonZero(t *Trial) int {
	n := 0
	for _, rc := range t.Runs {
		n += nonZero(rc.Replay)
	}
	return n
}

// minimise returns a simpler failing trial (never nil if t itself fails).
func minimise(p *Prop, t *Trial, class string, budget int) (*Trial, int) {
	m := &minimiser{p: p, class: class, budget: budget, deadline: time.Now().Add(60 * time.Second)}
	best, ok := m.fails(t)
	if !ok {
		return t, m.tries
	}
	for round := 0; round < 6 && m.tries < m.budget; round++ {
		progress := false
		// 1. whole runs to the baseline schedule / no knobs
		for i := range best.Runs {
			if len(best.Runs[i].Replay) == 0 && best.Runs[i].NumCPU == 1 && best.Runs[i].MaxProcs == 0 && best.Runs[i].MapMode == 0 && best.Runs[i].Chunk == 0 {
				continue
			}
			c := cloneTrial(best)
			c.Runs[i].Replay, c.Runs[i].Arity, c.Runs[i].Explicit = []int32{}, nil, true
			if nb, ok := m.fails(c); ok {
				best, progress = nb, true
			}
			for _, knob := range []string{"maxprocs", "numcpu", "mapmode", "chunk", "threads"} {
				c := cloneTrial(best)
				rc := &c.Runs[i]
				rc.Arity = nil
				switch knob {
				case "maxprocs":
					if rc.MaxProcs == 0 {
						continue
					}
					rc.MaxProcs = 0
				case "numcpu":
					if rc.NumCPU == 1 {
						continue
					}
					rc.NumCPU = 1
					if rc.MaxProcs > 0 {
						rc.MaxProcs = 1
					}
				case "mapmode":
					if rc.MapMode == 0 {
						continue
					}
					rc.MapMode = 0
				case "chunk":
					if rc.Chunk == 0 {
						continue
					}
					rc.Chunk = 0
				case "threads":
					if rc.Threads <= 1 {
						continue
					}
					rc.Threads--
				}
				if nb, ok := m.fails(c); ok {
					best, progress = nb, true
				}
			}
		}
		// 2. workload
		shrink := p.Shrink
		if shrink == nil && !p.NoShrink {
			shrink = func(t *Trial) []*Trial { return genericShrink(t, p.ShrinkColumns) }
		}
		if shrink != nil {
			for again := true; again && m.tries < m.budget; {
				again = false
				for _, c := range shrink(best) {
					for i := range c.Runs {
						c.Runs[i].Arity = nil
					}
					if nb, ok := m.fails(c); ok {
						best, progress, again = nb, true, true
						break
					}
				}
			}
		}
		// 3. schedule: zero decisions in chunks (ddmin towards the baseline policy), then truncate
		for i := range best.Runs {
			n := len(best.Runs[i].Replay)
			for size := n; size >= 1 && m.tries < m.budget; size /= 2 {
				for lo := 0; lo < len(best.Runs[i].Replay) && m.tries < m.budget; lo += size {
					hi := lo + size
					if hi > len(best.Runs[i].Replay) {
						hi = len(best.Runs[i].Replay)
					}
					if nonZero(best.Runs[i].Replay[lo:hi]) == 0 {
						continue
					}
					c := cloneTrial(best)
					for k := lo; k < hi; k++ {
						c.Runs[i].Replay[k] = 0
					}
					c.Runs[i].Arity = nil
					before := totalNonZero(best)
					if nb, ok := m.fails(c); ok && totalNonZero(nb) < before {
						best, progress = nb, true
					}
				}
			}
		}
		if !progress {
			break
		}
	}
	return best, m.tries
}
