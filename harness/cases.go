package main

import "fmt"

// allCmds are the command forms C12/C18/C19 range over.
var allCmds = []string{"toma", "topa-stdout", "topa-dir", "samvariants", "variants", "variants-stdin", "variants-annoref", "samvariants-annoref", "snps", "snps-agg", "closest", "closestn", "updownlist", "topranking"}

type caseSize struct {
	many bool // many tiny records (reaches the 50+threads buffers)
	min3 bool // at least three records in every alignment / SAM (corruption positions first, middle, last)
}

// genCmdCase builds a valid input for one command form.
func genCmdCase(r *Rand, form string, sz caseSize) *Case {
	c := &Case{Files: map[string]string{}}
	lay := genLayout(r)
	nrec := r.Range(1, 8)
	if sz.many {
		nrec = r.Range(60, 150)
		if r.P(0.35) {
			nrec = r.Range(49, 70) // right at the 50+threads / NumCPU+50 channel capacities
		}
	}
	if sz.min3 && nrec < 3 {
		nrec = r.Range(3, 8)
	}
	lo := 1
	if sz.min3 {
		lo = 3
	}
	switch form {
	case "toma", "topa-stdout", "topa-dir", "samvariants", "samvariants-annoref", "indels":
		annoref := form == "samvariants-annoref"
		if annoref {
			form = "samvariants"
		}
		L := r.Range(6, 40)
		if sz.many {
			L = r.Range(6, 12)
		}
		sp := samSpec{L: L, Queries: nrec, MaxRecs: 3, Overlap: form == "toma", Ins: 0.05, Del: 0.04, Skip: 0.02, Junk: 0.1, Clip: 0.2, InsDisjoint: true}
		if form == "toma" {
			sp.DelFlip, sp.Conflict = 0.05, 0.05
		} else if form == "indels" {
			sp.Ins, sp.Del, sp.MaxRecs = 0.15, 0.12, 2 // both tables should have rows
		} else {
			sp.EdgeIns = 0.08
		}
		sc := genSam(r, sp)
		c.Files["sam"] = sc.Text()
		switch form {
		case "toma":
			c.Cmd = "toma"
			c.Opts.Wrap = r.PickInt(-1, -1, 3, 7, 60)
			c.Opts.Pad = r.P(0.3)
			c.Opts.Start, c.Opts.End = -1, -1
			if r.P(0.3) {
				c.Opts.Start = r.Range(1, L)
				c.Opts.End = r.Range(c.Opts.Start, L)
			}
		case "topa-stdout", "topa-dir":
			c.Cmd = "topa"
			c.Files["ref"] = ">ref\n" + sc.RefSeq + "\n"
			c.Opts.OutDir = "stdout"
			if form == "topa-dir" {
				c.Opts.OutDir = "outdir"
			}
			c.Opts.Wrap = r.PickInt(-1, -1, 5, 60)
			c.Opts.OmitRef = r.P(0.3)
			c.Opts.OmitIns = r.P(0.3)
			c.Opts.Start, c.Opts.End = -1, -1
		case "indels":
			// `sam indels`: two output destinations (insertions -> the writer, deletions -> a second one)
			c.Cmd = "indels"
			c.Opts.MinCount = r.PickInt(1, 1, 2)
		case "samvariants":
			c.Cmd = "samvariants"
			an := genAnno(r, sc.RefSeq, true, 0)
			c.Files["ref"] = ">ref\n" + sc.RefSeq + "\n"
			c.Opts.RefFromFile = true
			if r.Bool() {
				c.Files["anno"] = an.GenBank(sc.RefSeq)
				c.Opts.AnnoSuffix = "gb"
			} else {
				c.Files["anno"] = an.GFF(sc.RefSeq, true)
				c.Opts.AnnoSuffix = "gff"
			}
			c.Opts.Start, c.Opts.End = -1, -1
			c.Opts.AppendSNP = r.P(0.3)
			c.Opts.Aggregate = r.P(0.3)
			if c.Opts.Aggregate {
				c.Opts.Threshold = []float64{0, 0.3, 0.5}[r.Intn(3)]
			}
			if annoref {
				// no --reference: the reference is the annotation's own sequence
				delete(c.Files, "ref")
				c.Opts.RefFromFile = false
			}
		}
	case "variants", "variants-stdin", "variants-annoref":
		w := r.Range(6, 40)
		if sz.many {
			w = r.Range(6, 12)
		}
		ref := genRefSeq(r, w)
		an := genAnno(r, ref, true, 0)
		q := genAln(r, ref, alnSpec{W: w, N: nrec, Prof: -1, SNP: 0.1, Prefix: "q"})
		all := Aln{Names: append([]string{"ref"}, q.Names...), Seqs: append([]string{ref}, q.Seqs...)}
		if form != "variants-annoref" && r.P(0.2) {
			// insertion columns: the reference row has gaps there (the alignment is wider than the reference is long)
			for k := r.Range(1, 2); k > 0; k-- {
				at := r.Range(1, len(all.Seqs[0])-1)
				for i := range all.Seqs {
					ch := byte('-')
					if i > 0 && r.P(0.4) {
						ch = "ACGT"[r.Intn(4)]
					}
					all.Seqs[i] = all.Seqs[i][:at] + string(ch) + all.Seqs[i][at:]
				}
			}
		}
		c.Cmd = "variants"
		c.Files["msa"] = all.FASTA(lay)
		c.Opts.RefID = "ref"
		c.Opts.Stdin = form == "variants-stdin"
		if form == "variants-annoref" {
			// no --reference: the alignment holds the queries only, the reference is the annotation's sequence
			c.Files["msa"] = q.FASTA(lay)
			c.Opts.RefID = ""
		}
		if r.Bool() {
			c.Files["anno"] = an.GenBank(ref)
			c.Opts.AnnoSuffix = "gb"
		} else {
			c.Files["anno"] = an.GFF(ref, true)
			c.Opts.AnnoSuffix = "gff"
		}
		c.Opts.Start, c.Opts.End = -1, -1
		c.Opts.AppendSNP = r.P(0.3)
		c.Opts.Aggregate = r.P(0.3)
		if c.Opts.Aggregate {
			c.Opts.Threshold = []float64{0, 0.3, 0.5}[r.Intn(3)]
		}
	case "snps", "snps-agg", "updownlist":
		w := genWidth(r, sz.many)
		ref := genRefSeq(r, w)
		q := genAln(r, ref, alnSpec{W: w, N: nrec, Prof: -1, SNP: 0.15, Prefix: "q", AllN: 0.05})
		c.Files["ref"] = ">ref\n" + ref + "\n"
		c.Files["query"] = q.FASTA(lay)
		if form == "updownlist" {
			c.Cmd = "updownlist"
		} else {
			c.Cmd = "snps"
			c.Opts.HardGaps = r.P(0.3)
			if form == "snps-agg" {
				c.Opts.Aggregate = true
				c.Opts.Threshold = []float64{0, 0.3, 0.5}[r.Intn(3)]
			}
		}
	case "closest", "closestn":
		w := r.Range(2, 24)
		ref := genRefSeq(r, w)
		nq := r.Range(lo, 5)
		nt := r.Range(lo, 12)
		if sz.many {
			nt = r.Range(60, 120)
		}
		q := genAln(r, ref, alnSpec{W: w, N: nq, Prof: profN, SNP: 0.1, Prefix: "q"})
		t := genAln(r, ref, alnSpec{W: w, N: nt, Prof: profN, SNP: 0.15, Prefix: "t", Dup: 0.1})
		c.Files["query"] = q.FASTA(lay)
		c.Files["target"] = t.FASTA(genLayout(r))
		c.Opts.Measure = r.Pick("raw", "snp", "tn93")
		if form == "closest" {
			c.Cmd = "closest"
		} else {
			c.Cmd = "closestn"
			c.Opts.N = r.Range(1, 4)
			c.Opts.MaxDist = -1
			if r.P(0.4) {
				// -d, alone or with -n; small values leave some queries without any neighbour (an empty row)
				if c.Opts.Measure == "snp" {
					c.Opts.MaxDist = float64(r.PickInt(0, 0, 1, 2, 5))
				} else {
					c.Opts.MaxDist = []float64{0, 0, 0.05, 0.1, 0.3}[r.Intn(5)]
				}
				if r.Bool() {
					c.Opts.N = 0
				}
			}
			c.Opts.Table = r.P(0.4)
		}
	case "topranking":
		w := r.Range(4, 24)
		ref := genRefSeq(r, w)
		nq := r.Range(lo, 4)
		nt := r.Range(lo, 12)
		if sz.many {
			nt = r.Range(60, 120)
		}
		q := genAln(r, ref, alnSpec{W: w, N: nq, Prof: profN, SNP: 0.1, Prefix: "q"})
		t := genAln(r, ref, alnSpec{W: w, N: nt, Prof: profN, SNP: 0.15, Prefix: "t", Dup: 0.1})
		c.Cmd = "topranking"
		c.Files["ref"] = ">ref\n" + ref + "\n"
		c.Files["query"] = q.FASTA(lay)
		c.Files["target"] = t.FASTA(genLayout(r))
		c.Opts.QType, c.Opts.TType = "fasta", "fasta"
		c.Opts.Table = r.P(0.3)
		c.Opts.ThreshPair = 0.1
		c.Opts.ThreshTarg = 10000
		if r.P(0.3) {
			c.Opts.DistPush = r.Range(1, 2)
		} else if r.Bool() {
			c.Opts.SizeTotal = r.Range(1, 8)
		} else {
			c.Opts.SizeUp, c.Opts.SizeDown, c.Opts.SizeSide, c.Opts.SizeSame = r.Range(0, 3), r.Range(0, 3), r.Range(0, 3), r.Range(0, 3)
			if c.Opts.SizeUp+c.Opts.SizeDown+c.Opts.SizeSide+c.Opts.SizeSame == 0 {
				c.Opts.SizeSame = 1
			}
		}
		c.Opts.NoFill = r.P(0.3)
	default:
		panic(fmt.Sprint("genCmdCase: unknown form ", form))
	}
	c.Opts.Threads = 1
	return c
}
