package main

import (
	"fmt"
	"strconv"
	"strings"
)

// measureSpelling: --measure is documented and validated without regard to case; a fifth of the
// command lines spell it in upper case or capitalised.
func measureSpelling(m string, h uint64) string {
	switch h % 10 {
	case 1:
		return strings.ToUpper(m)
	case 2:
		if m != "" {
			return strings.ToUpper(m[:1]) + m[1:]
		}
	}
	return m
}

// cliCase turns a pkg-level case into the equivalent `gofasta ...` command line run through the real
// cobra tree (cmd/) and gfio inside the simulator. Files live in the in-memory FS under names with
// the suffixes the commands inspect. ok=false: no cli form for this case.
func cliCase(c *Case) (*Case, bool) {
	o := c.Opts
	out := &Case{Cmd: "cli", Files: map[string]string{}}
	put := func(name, key string) string {
		out.Files[name] = c.Files[key]
		return name
	}
	// the main input of these commands defaults to standard input: a quarter of the cases (chosen from the
	// case content, so that a case always maps to the same command line) are piped instead of named
	piped := caseHash(c)%4 == 3
	main := func(flag, name, key string) []string {
		if !piped {
			return []string{flag, put(name, key)}
		}
		out.Files["stdin"] = c.Files[key]
		if caseHash(c)%8 == 3 {
			return []string{flag, "stdin"}
		}
		return nil
	}
	var a []string
	th := strconv.Itoa(max1(o.Threads))
	switch c.Cmd {
	case "toma":
		a = append([]string{"sam", "toMultiAlign", "-t", th}, main("-s", "in.sam", "sam")...)
		if o.Start > 0 {
			a = append(a, "--start", strconv.Itoa(o.Start))
		}
		if o.End > 0 {
			a = append(a, "--end", strconv.Itoa(o.End))
		}
		if o.Pad {
			a = append(a, "--pad")
		}
		if o.Wrap > 0 {
			a = append(a, "--wrap", strconv.Itoa(o.Wrap))
		}
	case "topa":
		a = append([]string{"sam", "toPairAlign", "-r", put("ref.fasta", "ref"), "-o", o.OutDir, "-t", th}, main("-s", "in.sam", "sam")...)
		if o.Start > 0 {
			a = append(a, "--start", strconv.Itoa(o.Start))
		}
		if o.End > 0 {
			a = append(a, "--end", strconv.Itoa(o.End))
		}
		if o.Wrap > 0 {
			a = append(a, "--wrap", strconv.Itoa(o.Wrap))
		}
		if o.OmitRef {
			a = append(a, "--omit-reference")
		}
		if o.OmitIns {
			a = append(a, "--skip-insertions")
		}
	case "variants":
		piped = o.Stdin // a piped alignment must have the reference first: only when the case says so
		a = append([]string{"variants", "-r", o.RefID, "-a", put("anno."+o.AnnoSuffix, "anno"), "-t", th}, main("--msa", "msa.fasta", "msa")...)
		if o.Start > 0 {
			a = append(a, "--start", strconv.Itoa(o.Start))
		}
		if o.End > 0 {
			a = append(a, "--end", strconv.Itoa(o.End))
		}
		if o.Aggregate {
			a = append(a, "--aggregate", "--threshold", strconv.FormatFloat(o.Threshold, 'g', -1, 64))
		}
		if o.AppendSNP {
			a = append(a, "--append-snps")
		}
	case "indels":
		a = append([]string{"sam", "indels", "--threshold", strconv.Itoa(o.MinCount), "--insertions-out", "insertions.txt", "--deletions-out", "deletions.txt"}, main("-s", "in.sam", "sam")...)
	case "samvariants":
		a = append([]string{"sam", "variants", "-a", put("anno."+o.AnnoSuffix, "anno"), "-t", th}, main("-s", "in.sam", "sam")...)
		if o.RefFromFile {
			a = append(a, "-r", put("ref.fasta", "ref"))
		}
		if o.Start > 0 {
			a = append(a, "--start", strconv.Itoa(o.Start))
		}
		if o.End > 0 {
			a = append(a, "--end", strconv.Itoa(o.End))
		}
		if o.Aggregate {
			a = append(a, "--aggregate", "--threshold", strconv.FormatFloat(o.Threshold, 'g', -1, 64))
		}
		if o.AppendSNP {
			a = append(a, "--append-snps")
		}
	case "snps":
		a = append([]string{"snps", "-r", put("ref.fasta", "ref")}, main("-q", "query.fasta", "query")...)
		if o.HardGaps {
			a = append(a, "--hard-gaps")
		}
		if o.Aggregate {
			a = append(a, "--aggregate", "--threshold", strconv.FormatFloat(o.Threshold, 'g', -1, 64))
		}
	case "closest", "closestn":
		a = []string{"closest", "--query", put("query.fasta", "query"), "--target", put("target.fasta", "target"), "-m", measureSpelling(o.Measure, caseHash(c)), "-t", th}
		if c.Cmd == "closestn" {
			if o.N > 0 {
				a = append(a, "-n", strconv.Itoa(o.N))
			}
			if o.MaxDist != -1 {
				a = append(a, "-d", strconv.FormatFloat(o.MaxDist, 'g', -1, 64))
			}
			if o.N == 0 && o.MaxDist == -1 {
				return nil, false
			}
			if o.Table {
				a = append(a, "--table")
			}
		}
	case "updownlist":
		a = append([]string{"updown", "list", "-r", put("ref.fasta", "ref")}, main("-q", "query.fasta", "query")...)
	case "topranking":
		qn, tn := "query.fasta", "target.fasta"
		// both documented FASTA suffixes, chosen from the case content so that a case always maps to the same line
		if h := caseHash(c); h%3 == 0 {
			qn = "query.fa"
		} else if h%3 == 1 {
			tn = "target.fa"
		}
		if o.QType == "csv" {
			qn = "query.csv"
		}
		if o.TType == "csv" {
			tn = "target.csv"
		}
		a = []string{"updown", "topranking", "-q", put(qn, "query"), "-t", put(tn, "target"), "-r", put("ref.fasta", "ref")}
		for _, kv := range []struct {
			f string
			v int
		}{{"--size-total", o.SizeTotal}, {"--size-up", o.SizeUp}, {"--size-down", o.SizeDown}, {"--size-side", o.SizeSide}, {"--size-same", o.SizeSame},
			{"--dist-all", o.DistAll}, {"--dist-up", o.DistUp}, {"--dist-down", o.DistDown}, {"--dist-side", o.DistSide}, {"--dist-push", o.DistPush}} {
			if kv.v != 0 {
				a = append(a, kv.f, strconv.Itoa(kv.v))
			}
		}
		a = append(a, "--threshold-pair", strconv.FormatFloat(float64(o.ThreshPair), 'g', -1, 32), "--threshold-target", strconv.Itoa(o.ThreshTarg))
		if o.NoFill {
			a = append(a, "--no-fill")
		}
		if o.Table {
			a = append(a, "--table")
		}
		if len(o.Ignore) > 0 {
			txt := ""
			for _, n := range o.Ignore {
				txt += n + "\n"
			}
			out.Files["ignore.txt"] = txt
			a = append(a, "--ignore", "ignore.txt")
		}
	default:
		return nil, false
	}
	out.Opts.Args = a
	out.Opts.Threads = 1
	return out, true
}

func max1(n int) int {
	if n < 1 {
		return 1
	}
	return n
}

var _ = fmt.Sprint
