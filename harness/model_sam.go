package main

import (
	"strings"
)

// Reference model of `sam toMultiAlign`, written from the property statement and the SAM
// specification (which CIGAR operators consume query and/or reference). It shares no code with gofasta.

type samGroup struct {
	name string
	recs []SamRec
}

// samGroups drops unmapped (0x4) and secondary (0x100) records and groups consecutive records by query name.
func samGroups(sc *SamCase) []samGroup {
	var gs []samGroup
	for _, rec := range sc.Recs {
		if rec.Flag&4 != 0 || rec.Flag&256 != 0 {
			continue
		}
		if len(gs) > 0 && gs[len(gs)-1].name == rec.Name {
			gs[len(gs)-1].recs = append(gs[len(gs)-1].recs, rec)
		} else {
			gs = append(gs, samGroup{name: rec.Name, recs: []SamRec{rec}})
		}
	}
	return gs
}

const (
	cellNone     = iota // no record covers the column
	cellDel             // some record deletes it, none aligns a base to it
	cellBase            // exactly one distinct base aligned
	cellConflict        // two different bases aligned
)

type cell struct {
	state int
	base  byte
}

// projectRow projects one query's records onto reference coordinates. ok=false if a record
// runs past the reference or the query has no aligned base (outside the property's domain).
func projectRow(g samGroup, L int) ([]cell, bool) {
	row, ok, any := projectRowAny(g, L)
	return row, ok && any
}

// projectRowAny is projectRow that also accepts a query none of whose records aligns a base (CIGARs made of
// clips, insertions, deletions and skips only): any=false then, and every position is uncovered or deleted.
func projectRowAny(g samGroup, L int) ([]cell, bool, bool) {
	row := make([]cell, L)
	any := false
	for _, rec := range g.recs {
		p := rec.Pos - 1
		if p < 0 {
			return nil, false, false
		}
		qi := 0
		for _, op := range rec.Cigar {
			switch op.Op {
			case 'M', '=', 'X':
				for k := 0; k < op.Len; k++ {
					if p >= L || qi >= len(rec.Seq) {
						return nil, false, false
					}
					b := rec.Seq[qi]
					c := &row[p]
					switch c.state {
					case cellNone, cellDel:
						c.state, c.base = cellBase, b
					case cellBase:
						if c.base != b {
							c.state = cellConflict
						}
					}
					any = true
					p++
					qi++
				}
			case 'D':
				for k := 0; k < op.Len; k++ {
					if p >= L {
						return nil, false, false
					}
					if row[p].state == cellNone {
						row[p].state = cellDel
					}
					p++
				}
			case 'N':
				p += op.Len
				if p > L {
					return nil, false, false
				}
			case 'I', 'S':
				qi += op.Len
			case 'H', 'P':
			}
		}
	}
	return row, true, any
}

func renderRow(row []cell, pad bool) string {
	first, last := -1, -1
	for i, c := range row {
		if c.state == cellBase || c.state == cellConflict {
			if first < 0 {
				first = i
			}
			last = i
		}
	}
	b := make([]byte, len(row))
	for i, c := range row {
		switch c.state {
		case cellBase:
			b[i] = c.base
		case cellConflict:
			b[i] = 'N'
		case cellDel:
			b[i] = '-'
		case cellNone:
			if pad || (i > first && i < last) {
				b[i] = 'N'
			} else {
				b[i] = '-'
			}
		}
	}
	return string(b)
}

func wrapLines(s string, w int) string {
	if w <= 0 {
		return s + "\n"
	}
	var sb strings.Builder
	for i := 0; i < len(s); i += w {
		e := i + w
		if e > len(s) {
			e = len(s)
		}
		sb.WriteString(s[i:e] + "\n")
	}
	return sb.String()
}

// tomaModel is the expected output of sam toMultiAlign; ok=false if the case is outside the domain.
func tomaModel(sc *SamCase, o Opts) (string, bool) {
	L := len(sc.RefSeq)
	var sb strings.Builder
	for _, g := range samGroups(sc) {
		row, ok, _ := projectRowAny(g, L)
		if !ok {
			return "", false
		}
		s := renderRow(row, o.Pad)
		start, end := o.Start, o.End
		if start > 0 || end > 0 {
			if start <= 0 {
				start = 1
			}
			if end <= 0 {
				end = L
			}
			if o.Pad {
				x := []byte(s)
				for i := range x {
					if i < start-1 || i >= end {
						x[i] = 'N'
					}
				}
				s = string(x)
			} else {
				s = s[start-1 : end]
			}
		}
		sb.WriteString(">" + g.name + "\n" + wrapLines(s, o.Wrap))
	}
	return sb.String(), true
}
