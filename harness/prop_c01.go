package main

import (
	"fmt"
	"strings"

	"verif/simrt"
)

// C01 — sam toMultiAlign projects every query onto reference coordinates exactly.

func init() {
	register(&Prop{
		ID: "C01", Level: "exploration", Quick: 80000, Thorough: 5000000,
		Rule:     "trial = generated SAM (reference 4..60, 1..8 queries or 60..150 one-record queries, 1..3 primary/supplementary records per query overlapping or not and agreeing or conflicting, CIGARs over M I D N S H P = X incl. leading/trailing D, unmapped/secondary records interleaved) x --pad x --start/--end x --wrap, 3 seeded schedules with --threads in {1,2,3,4,8} and chunked SAM reads; oracle = executable reference model of the projection; non-trivial = at least one multi-record query or at least one D/N/I operator, and at least 2 queries; distinct = distinct (input, options)",
		Gen:      genC01,
		Check:    checkC01,
		Required: []string{"multi_record_query", "conflicting_overlap", "junk_record_inside_block", "deletion_facing_base_in_overlap"},
		Expected: []string{"overtaken_by_256_or_more", "out_of_order_arrival"},
	})
}

func genC01(r *Rand, tier string, ord int) *Trial {
	many := r.P(0.08)
	sp := samSpec{L: r.Range(4, 60), Queries: r.Range(1, 8), MaxRecs: 3, Overlap: true, Conflict: 0.08, Ins: 0.06, Del: 0.06, Skip: 0.04, Junk: 0.15, Clip: 0.25, DelFlip: 0.06}
	kind := "generated"
	if many {
		sp.L, sp.Queries, sp.MaxRecs, kind = r.Range(4, 12), r.Range(60, 150), 1, "generated-many"
		if r.P(0.25) { // several hundred queries: a parked worker is overtaken by more records than any fixed-size window holds
			sp.Queries, kind = r.Range(300, 700), "generated-many-hundreds"
		}
	}
	if r.P(0.2) {
		sp.Conflict, sp.DelFlip = 0, 0
	}
	if tier == "thorough" && !many && r.P(0.05) {
		sp.L = r.Range(61, 400) // deeper bound on the reference length in the thorough tier
	}
	long := !many && r.P(0.001)
	if long { // a reference of about 2^8, 2^12 or 2^16 bases (gen.go, scale)
		sp.L, sp.Queries, kind = (1<<uint(r.PickInt(8, 12, 16, 16)))+r.Range(-2, 40), r.Range(1, 3), "generated-long-reference"
		sp.Ins, sp.Del, sp.Skip, sp.Conflict, sp.DelFlip = 0.002, 0.002, 0.001, 0.002, 0.002
	}
	sc := genSam(r, sp)
	o := Opts{Wrap: -1, Start: -1, End: -1, Threads: 1}
	o.Pad = r.P(0.4)
	if r.P(0.4) {
		o.Start, o.End = genWindow(r, sp.L)
		switch r.Intn(4) {
		case 0:
			o.Start = -1
		case 1:
			o.End = -1
		}
	}
	if r.P(0.4) {
		o.Wrap = r.PickInt(1, 2, 3, 7, 60, sp.L)
		if long && o.Wrap < 7 {
			o.Wrap = 80
		}
	}
	t := &Trial{Kind: kind, Case: Case{Cmd: "toma", Files: map[string]string{"sam": sc.Text()}, Opts: o}, Params: map[string]string{}}
	t.Runs = genRunCfgs(r, 3)
	if long {
		wideRuns(t.Runs)
	}
	if many {
		scaleHorizon(t.Runs, 10*sp.Queries)
		if r.P(0.5) {
			t.Runs[0].Strat = simrt.Strategy{Kind: simrt.StratPCT, Depth: r.Range(1, 3), Horizon: 6 * sp.Queries, SelectRand: true}
			if t.Runs[0].Threads < 2 {
				t.Runs[0].Threads = r.PickInt(2, 3, 4, 8)
			}
		}
	}
	return t
}

func checkC01(t *Trial, ctx *Ctx) *Failure {
	sc := *parseSamText(t.Case.Files["sam"])
	want, ok := tomaModel(&sc, t.Case.Opts)
	if !ok {
		ctx.Discard("case outside the domain (a CIGAR runs past the reference end)")
		return nil
	}
	// reach probes on the input
	groups := samGroups(&sc)
	multi, ops, conflict, junkInside := false, false, false, false
	for _, g := range groups {
		if len(g.recs) > 1 {
			multi = true
			row, _ := projectRow(g, len(sc.RefSeq))
			for _, c := range row {
				if c.state == cellConflict {
					conflict = true
				}
			}
		}
		for _, rec := range g.recs {
			for _, op := range rec.Cigar {
				if op.Op == 'D' || op.Op == 'N' || op.Op == 'I' {
					ops = true
				}
			}
		}
	}
	// a position that one record deletes and another record of the same query aligns a base to
	delVsBase := false
	for _, g := range groups {
		if len(g.recs) < 2 {
			continue
		}
		L := len(sc.RefSeq)
		seenDel, seenBase := make([]bool, L+1), make([]bool, L+1)
		for _, rec := range g.recs {
			p := rec.Pos
			for _, op := range rec.Cigar {
				switch op.Op {
				case 'M', '=', 'X':
					for k := 0; k < op.Len && p <= L; k, p = k+1, p+1 {
						seenBase[p] = true
					}
				case 'D':
					for k := 0; k < op.Len && p <= L; k, p = k+1, p+1 {
						seenDel[p] = true
					}
				case 'N':
					p += op.Len
				}
			}
		}
		for p := 1; p <= L; p++ {
			if seenDel[p] && seenBase[p] {
				delVsBase = true
			}
		}
	}
	if delVsBase {
		ctx.Probe("deletion_facing_base_in_overlap", 1)
	}
	for i := 1; i+1 < len(sc.Recs); i++ {
		if sc.Recs[i].Flag&(4|256) != 0 && sc.Recs[i-1].Name == sc.Recs[i+1].Name && sc.Recs[i-1].Flag&(4|256) == 0 && sc.Recs[i+1].Flag&(4|256) == 0 {
			junkInside = true
		}
	}
	if multi {
		ctx.Probe("multi_record_query", 1)
	}
	if conflict {
		ctx.Probe("conflicting_overlap", 1)
	}
	if junkInside {
		ctx.Probe("junk_record_inside_block", 1)
	}
	for i := range t.Runs {
		res := ctx.Run(t, i, &t.Case)
		if res.Out.Kind != simrt.Returned || res.Err != nil {
			t.Runs = t.Runs[i : i+1]
			return &Failure{Class: "C01/valid-input-not-processed{" + res.Out.Signature() + "}", Detail: res.Describe() + "\n" + t.Case.Files["sam"]}
		}
		if res.Tap != nil && res.Tap.maxGap >= 256 {
			ctx.Probe("overtaken_by_256_or_more", 1)
		}
		if got := string(res.Stdout); got != want {
			t.Runs = t.Runs[i : i+1]
			cls := "content"
			if lineMultiset(got) == lineMultiset(want) {
				cls = "record-order"
			} else if strings.Count(got, ">") != strings.Count(want, ">") {
				cls = "record-count"
			}
			return &Failure{Class: "C01/" + cls, Detail: fmt.Sprintf("options %+v\n%s\n--- SAM:\n%s--- model:\n%s--- toMultiAlign:\n%s", t.Case.Opts, firstDiff(want, got), t.Case.Files["sam"], want, got)}
		}
	}
	if (multi || ops) && len(groups) >= 2 {
		ctx.Nontrivial()
	}
	return nil
}
