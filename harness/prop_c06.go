package main

import (
	"fmt"
	"math"
	"sort"
	"strconv"
	"strings"

	"verif/simrt"
)

// C06 — closest returns exactly the nearest targets under the documented total order.

func init() {
	register(&Prop{
		ID: "C06", Level: "exploration", Quick: 100000, Thorough: 6000000,
		Rule:          "trial = (query alignment 1..6, target alignment 1..14 (10%: 15..40) with ties, duplicates, heavily ambiguous and all-N targets in any file position, measure raw/snp/tn93, plain closest or -n K (incl. K > targets) and/or -d D (at, just below, just above occurring distances), --table); 3 seeded schedules with -t in {1,2,3,4,8} and NumCPU in {1..16}; oracle = executable model of the total order (defined before undefined, distance, completeness desc, file position); non-trivial = >= 2 queries and >= 3 targets and (a tie on distance, or an undefined distance, or results arrived out of query order); distinct = distinct (inputs, options)",
		ShrinkColumns: true,
		Gen:           genC06,
		Check:         checkC06,
		Required:      []string{"tie_on_distance", "tie_on_distance_and_completeness", "undefined_distance_seen", "catchment_replacement_at_capacity"},
		Expected:      []string{"results_arrived_out_of_query_order"},
	})
}

type pairStat struct {
	n, same    int // disjoint columns; columns where both carry the same unambiguous base
	p1, p2, tv int // among columns where both are A/C/G/T and differ: A<->G, C<->T, other
	lres       int // columns where both are A/C/G/T (equal or different)
}

func pairStats(q, t string) pairStat {
	var s pairStat
	for i := 0; i < len(q); i++ {
		a, _ := baseSet(q[i], false)
		b, _ := baseSet(t[i], false)
		if a&b == 0 {
			s.n++
		}
		if isACGT(q[i]) && q[i] == t[i] {
			s.same++
		}
		if isACGT(q[i]) && isACGT(t[i]) {
			s.lres++
			if q[i] != t[i] {
				x, y := q[i], t[i]
				if x > y {
					x, y = y, x
				}
				switch {
				case x == 'A' && y == 'G':
					s.p1++
				case x == 'C' && y == 'T':
					s.p2++
				default:
					s.tv++
				}
			}
		}
	}
	return s
}

func completeness(s string) int {
	c := 0
	for i := 0; i < len(s); i++ {
		m, _ := baseSet(s[i], false)
		k := 0
		for b := uint8(1); b < 16; b <<= 1 {
			if m&b != 0 {
				k++
			}
		}
		c += 12 / k
	}
	return c
}

// tn93 after Tamura & Nei (1993) eq. 7, base frequencies from the target's A/C/G/T counts.
func tn93Model(st pairStat, t string) float64 {
	var cnt [4]float64
	for i := 0; i < len(t); i++ {
		switch t[i] {
		case 'A':
			cnt[0]++
		case 'C':
			cnt[1]++
		case 'G':
			cnt[2]++
		case 'T':
			cnt[3]++
		}
	}
	L := cnt[0] + cnt[1] + cnt[2] + cnt[3]
	gA, gC, gG, gT := cnt[0]/L, cnt[1]/L, cnt[2]/L, cnt[3]/L
	gR, gY := gA+gG, gC+gT
	k1 := 2 * gA * gG / gR
	k2 := 2 * gT * gC / gY
	k3 := 2 * (gR*gY - gA*gG*gY/gR - gT*gC*gR/gY)
	P1 := float64(st.p1) / float64(st.lres)
	P2 := float64(st.p2) / float64(st.lres)
	Q := float64(st.tv) / float64(st.lres)
	w1 := 1 - P1/k1 - Q/(2*gR)
	w2 := 1 - P2/k2 - Q/(2*gY)
	w3 := 1 - Q/(2*gR*gY)
	return -k1*math.Log(w1) - k2*math.Log(w2) - k3*math.Log(w3)
}

type cand struct {
	name     string
	pos      int
	comp     int
	defined  bool
	num, den int     // raw: n/d ; snp: n/1
	d        float64 // value used for printing and for tn93 ordering
	statKey  string
}

func genC06(r *Rand, tier string, ord int) *Trial {
	measure := r.Pick("raw", "raw", "snp", "snp", "tn93")
	w := r.Range(1, 24)
	nq, nt := r.Range(1, 6), r.Range(1, 14)
	if r.P(0.1) {
		nt = r.Range(15, 40)
	}
	snp := 0.15
	if measure == "tn93" {
		w = r.Range(10, 30)
		snp = 0.06
	}
	ref := genRefSeq(r, w)
	q := genAln(r, ref, alnSpec{W: w, N: nq, Prof: profN, SNP: snp, Prefix: "q", AllN: 0.03})
	prof := profN
	if r.P(0.3) && measure != "tn93" {
		prof = profFull
	}
	tg := genAln(r, ref, alnSpec{W: w, N: nt, Prof: prof, SNP: snp, Prefix: "t", AllN: 0.1, Dup: 0.2})
	// near-identical targets (ties) and heavy ambiguity
	for i := range tg.Seqs {
		if r.P(0.2) {
			tg.Seqs[i] = q.Seqs[r.Intn(nq)]
		}
		if r.P(0.15) {
			b := []byte(tg.Seqs[i])
			for k := r.Range(1, w); k > 0; k-- {
				b[r.Intn(w)] = 'N'
			}
			tg.Seqs[i] = string(b)
		}
	}
	c := Case{Files: map[string]string{"query": q.FASTA(genLayout(r)), "target": tg.FASTA(genLayout(r))}}
	c.Opts.Measure = measure
	t := &Trial{Params: map[string]string{}}
	if r.P(0.3) {
		c.Cmd, t.Kind = "closest", "closest"
	} else {
		c.Cmd, t.Kind = "closestn", "closestn"
		c.Opts.MaxDist = -1
		mode := r.Intn(3)
		if mode != 1 {
			c.Opts.N = r.Range(1, 5)
			if r.P(0.15) {
				c.Opts.N = nt + r.Range(0, 3)
			}
		}
		if mode != 0 {
			// D at, just below, just above an occurring distance
			st := pairStats(upper(q.Seqs[r.Intn(nq)]), upper(tg.Seqs[r.Intn(nt)]))
			var d float64
			switch measure {
			case "snp":
				d = float64(st.n) + float64(r.PickInt(0, 0, -1, 1))
				if d < 0 {
					d = 0
				}
			case "raw":
				if st.n+st.same > 0 {
					d = float64(st.n) / float64(st.n+st.same)
				}
				d += []float64{0, 0, -1e-6, 1e-6}[r.Intn(4)]
				if d < 0 {
					d = 0
				}
			default:
				d = []float64{0, 0.05, 0.1, 0.5}[r.Intn(4)]
			}
			c.Opts.MaxDist = d
			if c.Opts.MaxDist == -1 {
				c.Opts.MaxDist = 0
			}
		}
		c.Opts.Table = r.P(0.5)
		t.Kind = fmt.Sprintf("closestn-mode%d", mode)
	}
	c.Opts.Threads = 1
	t.Case = c
	if r.P(0.15) {
		t.Params["cli"] = "1" // through the real command line: how -n / -d / --measure / --table reach the library
	}
	t.Runs = genRunCfgs(r, 3)
	return t
}

func fmtDist(measure string, c cand) string {
	if measure == "snp" {
		return strconv.Itoa(c.num)
	}
	return strconv.FormatFloat(c.d, 'f', 9, 64)
}

func checkC06(t *Trial, ctx *Ctx) *Failure {
	fa := func(text string) (names, seqs []string) {
		recs, _ := parseFasta(text)
		for _, rc := range recs {
			names = append(names, strings.Fields(rc.head[1:])[0])
			seqs = append(seqs, strings.Join(rc.seq, ""))
		}
		return
	}
	qn, qs := fa(t.Case.Files["query"])
	tn, ts := fa(t.Case.Files["target"])
	o := t.Case.Opts
	measure := o.Measure
	plain := t.Case.Cmd == "closest"
	K := o.N
	hasD := !plain && o.MaxDist != -1
	if plain {
		K = 1
	}
	if K == 0 {
		K = 1 << 30
	}
	type qexp struct {
		defined []cand // expected prefix, in order
		nUndef  int    // how many undefined targets must follow
		undef   map[string]bool
	}
	exps := make([]qexp, len(qn))
	tie, tie2, undefSeen := false, false, false
	for qi := range qn {
		Q := upper(qs[qi])
		var cs []cand
		for ti := range tn {
			T := upper(ts[ti])
			st := pairStats(Q, T)
			c := cand{name: tn[ti], pos: ti, comp: completeness(T)}
			switch measure {
			case "snp":
				c.defined, c.num, c.den, c.d = true, st.n, 1, float64(st.n)
			case "raw":
				c.num, c.den = st.n, st.n+st.same
				c.defined = c.den > 0
				if c.defined {
					c.d = float64(c.num) / float64(c.den)
				}
			case "tn93":
				c.d = tn93Model(st, T)
				c.defined = !math.IsNaN(c.d)
				if math.IsInf(c.d, 0) || c.d > 3 {
					ctx.Discard("tn93 distance infinite or in the saturation region d > 3, where a logarithm argument is within rounding of 0 (outside the asserted domain)")
					return nil
				}
				c.statKey = fmt.Sprint(st.p1, st.p2, st.tv, st.lres, strings.Count(T, "A"), strings.Count(T, "C"), strings.Count(T, "G"), strings.Count(T, "T"))
			}
			if !c.defined {
				undefSeen = true
			}
			cs = append(cs, c)
		}
		if measure == "tn93" {
			// ordering is asserted only between exact ties (identical statistics) or clearly separated values
			for i := range cs {
				for j := i + 1; j < len(cs); j++ {
					if cs[i].defined && cs[j].defined && cs[i].statKey != cs[j].statKey && math.Abs(cs[i].d-cs[j].d) < 1e-9 {
						ctx.Discard("tn93 near-tie that is not an exact tie")
						return nil
					}
				}
			}
		}
		less := func(a, b cand) bool {
			if a.defined != b.defined {
				return a.defined
			}
			if !a.defined {
				return a.pos < b.pos
			}
			var cmp int
			if measure == "tn93" {
				switch {
				case a.statKey == b.statKey:
					cmp = 0
				case a.d < b.d:
					cmp = -1
				default:
					cmp = 1
				}
			} else {
				l, r := a.num*b.den, b.num*a.den
				switch {
				case l < r:
					cmp = -1
				case l > r:
					cmp = 1
				}
			}
			if cmp != 0 {
				return cmp < 0
			}
			if a.comp != b.comp {
				return a.comp > b.comp
			}
			return a.pos < b.pos
		}
		sort.SliceStable(cs, func(i, j int) bool { return less(cs[i], cs[j]) })
		for i := 0; i+1 < len(cs); i++ {
			if cs[i].defined && cs[i+1].defined && !less(cs[i], cs[i+1]) == !less(cs[i+1], cs[i]) {
				tie = true
			}
			if cs[i].defined && cs[i+1].defined && cs[i].comp == cs[i+1].comp && ((measure != "tn93" && cs[i].num*cs[i+1].den == cs[i+1].num*cs[i].den) || (measure == "tn93" && cs[i].statKey == cs[i+1].statKey)) {
				tie, tie2 = true, true
			}
		}
		e := qexp{undef: map[string]bool{}}
		for _, c := range cs {
			if c.defined {
				if hasD {
					within := false
					if measure == "tn93" {
						if math.Abs(c.d-o.MaxDist) < 1e-9 {
							ctx.Discard("tn93 distance within rounding of -d")
							return nil
						}
						within = c.d <= o.MaxDist
					} else {
						within = c.d <= o.MaxDist
					}
					if !within {
						continue
					}
				}
				if len(e.defined) < K {
					e.defined = append(e.defined, c)
				}
			} else {
				if hasD {
					// "within distance D": an undefined distance is not within any D, the target is not listed
					ctx.Probe("undefined_distance_with_max_dist", 1)
					continue
				}
				e.undef[c.name] = true
			}
		}
		e.nUndef = K - len(e.defined)
		if e.nUndef > len(e.undef) {
			e.nUndef = len(e.undef)
		}
		exps[qi] = e
	}
	if tie {
		ctx.Probe("tie_on_distance", 1)
	}
	if tie2 {
		ctx.Probe("tie_on_distance_and_completeness", 1)
	}
	if undefSeen {
		ctx.Probe("undefined_distance_seen", 1)
	}
	if !plain && o.N > 0 && o.N < len(tn) {
		ctx.Probe("catchment_replacement_at_capacity", 1)
	}
	ooo := false
	ec := &t.Case
	if t.Params["cli"] == "1" {
		if cc, ok := cliCase(&t.Case); ok {
			ec = cc
			ctx.Probe("through_command_line", 1)
		}
	}
	for i := range t.Runs {
		res := ctx.Run(t, i, ec)
		if res.Tap != nil && res.Tap.outOfOrder > 0 {
			ooo = true
			ctx.Probe("results_arrived_out_of_query_order", 1)
		}
		fail := func(what, detail string) *Failure {
			t.Runs = t.Runs[i : i+1]
			return &Failure{Class: fmt.Sprintf("C06/%s{%s,%s}", what, t.Case.Cmd, measure), Detail: fmt.Sprintf("options: measure=%s n=%d d=%v table=%v\n%s\n--- query:\n%s--- target:\n%s--- output (%s):\n%s", measure, o.N, o.MaxDist, o.Table, detail, t.Case.Files["query"], t.Case.Files["target"], res.Describe(), res.Stdout)}
		}
		if res.Out.Kind != simrt.Returned || res.Err != nil {
			return fail("valid-input-not-processed:"+res.Out.Signature(), "")
		}
		lines := strings.Split(strings.TrimSuffix(string(res.Stdout), "\n"), "\n")
		rows := lines[1:]
		// collect, per query in order, the returned (name, distance) list
		type hit struct{ name, dist, snps string }
		got := make([][]hit, len(qn))
		switch {
		case plain:
			if len(rows) != len(qn) {
				return fail("row-count", fmt.Sprintf("%d queries, %d rows", len(qn), len(rows)))
			}
			for k, row := range rows {
				f := strings.Split(row, ",")
				if len(f) != 4 || f[0] != qn[k] {
					return fail("row-order", fmt.Sprintf("row %d should belong to %s: %q", k, qn[k], row))
				}
				got[k] = []hit{{f[1], f[2], f[3]}}
			}
		case o.Table:
			last := 0
			for _, row := range rows {
				f := strings.Split(row, ",")
				qi := -1
				for k := range qn {
					if qn[k] == f[0] {
						qi = k
					}
				}
				if len(f) != 3 || qi < last {
					return fail("row-order", "table rows not grouped in query order: "+row)
				}
				last = qi
				got[qi] = append(got[qi], hit{f[1], f[2], ""})
			}
		default:
			if len(rows) != len(qn) {
				return fail("row-count", fmt.Sprintf("%d queries, %d rows", len(qn), len(rows)))
			}
			for k, row := range rows {
				f := strings.Split(row, ",")
				if len(f) != 2 || f[0] != qn[k] {
					return fail("row-order", fmt.Sprintf("row %d should belong to %s: %q", k, qn[k], row))
				}
				if f[1] != "" {
					for _, n := range strings.Split(f[1], ";") {
						got[k] = append(got[k], hit{n, "", ""})
					}
				}
			}
		}
		for k := range qn {
			e := exps[k]
			g := got[k]
			var expNames []string
			for _, c := range e.defined {
				expNames = append(expNames, c.name)
			}
			if len(g) != len(e.defined)+e.nUndef {
				return fail("wrong-neighbours", fmt.Sprintf("query %s: expected %v (+%d with undefined distance), got %v", qn[k], expNames, e.nUndef, g))
			}
			for x, c := range e.defined {
				if g[x].name != c.name {
					what := "wrong-neighbours"
					if undefSeen {
						for _, h := range g[:len(e.defined)] {
							if e.undef[h.name] {
								what = "undefined-distance-displaces-defined"
							}
						}
					}
					return fail(what, fmt.Sprintf("query %s: expected %v (+%d with undefined distance), got %v", qn[k], expNames, e.nUndef, g))
				}
				if g[x].dist != "" {
					want := fmtDist(measure, c)
					ok := g[x].dist == want
					if !ok && measure == "tn93" {
						gv, err := strconv.ParseFloat(g[x].dist, 64)
						ok = err == nil && math.Abs(gv-c.d) <= 5e-10+1e-9
					}
					if !ok {
						return fail("wrong-distance", fmt.Sprintf("query %s target %s: expected distance %s, got %s", qn[k], c.name, want, g[x].dist))
					}
				}
				if plain {
					Q, T := upper(qs[k]), upper(ts[c.pos])
					var snps []string
					for j := 0; j < len(Q); j++ {
						a, _ := baseSet(Q[j], false)
						b, _ := baseSet(T[j], false)
						if a&b == 0 {
							snps = append(snps, fmt.Sprintf("%d%c%c", j+1, Q[j], T[j]))
						}
					}
					if g[x].snps != strings.Join(snps, ";") {
						return fail("wrong-snps", fmt.Sprintf("query %s target %s: expected SNPs %s, got %s", qn[k], c.name, strings.Join(snps, ";"), g[x].snps))
					}
				}
			}
			for _, h := range g[len(e.defined):] {
				if !e.undef[h.name] {
					return fail("wrong-neighbours", fmt.Sprintf("query %s: %s returned after the defined-distance neighbours but its distance is defined", qn[k], h.name))
				}
			}
		}
	}
	if len(qn) >= 2 && len(tn) >= 3 && (tie || undefSeen || ooo) {
		ctx.Nontrivial()
	}
	return nil
}
