package main

import (
	"bytes"
	"errors"
	"io"
	"os"
	"syscall"

	"verif/simrt"
)

// Fault is one injected I/O fault.
type Fault struct {
	Kind string `json:"kind"` // write_error_once | write_error_sticky | short_write | create_error | read_error | truncate
	Dest string `json:"dest"` // writes: "out" (the command's writer / stdout) or "files" (files created by the command); reads: input name
	K    int    `json:"k"`    // writes/creates: 1-based ordinal of the call; reads: byte offset
	// writes: which error the destination reports: "" = ENOSPC, "EPIPE", "EIO", "EDQUOT" (all as *os.PathError, as a
	// real *os.File returns them) or "plain" (an error value of no particular type, as a wrapped writer may return)
	Errno string `json:"errno,omitempty"`
}

var errPlainWrite = errors.New("simulated write failure")

var (
	errWriteEPIPE  = &os.PathError{Op: "write", Path: "/dev/simulated", Err: syscall.EPIPE}
	errWriteEIO    = &os.PathError{Op: "write", Path: "/dev/simulated", Err: syscall.EIO}
	errWriteEDQUOT = &os.PathError{Op: "write", Path: "/dev/simulated", Err: syscall.EDQUOT}
)

// writeErrnos is the cycle generators take the error of a write fault from.
var writeErrnos = []string{"", "EPIPE", "EIO", "plain", "EDQUOT"}

func writeErr(errno string) error {
	switch errno {
	case "EPIPE":
		return errWriteEPIPE
	case "EIO":
		return errWriteEIO
	case "EDQUOT":
		return errWriteEDQUOT
	case "plain":
		return errPlainWrite
	}
	return errInjectedWrite
}

var errInjectedWrite = &os.PathError{Op: "write", Path: "/dev/simulated", Err: syscall.ENOSPC}
var errInjectedRead = &os.PathError{Op: "read", Path: "/dev/simulated", Err: syscall.EIO}
var errInjectedCreate = &os.PathError{Op: "open", Path: "/dev/simulated", Err: syscall.EACCES}

// WriteRec is one recorded Write call.
type WriteRec struct {
	Dest  string `json:"dest"`
	Len   int    `json:"len"`
	Ret   int    `json:"ret"`
	Err   bool   `json:"err"`
	Fault string `json:"fault,omitempty"`
}

// ioEnv is the simulated I/O of one run.
type ioEnv struct {
	faults                 []Fault
	firedN                 [8]int
	writes                 []WriteRec
	nOut                   int // Write calls on "out"
	nFiles                 int // Write calls on created files
	nCreate                int
	out                    bytes.Buffer
	stderrN                int
	files                  map[string]*bytes.Buffer
	order                  []string
	dirs                   []string
	inputs                 map[string][]byte
	chunk                  int
	stickyOut, stickyFiles bool
	werrno                 string
	nClosed                int
	splitLine, splitCRLF   int
}

func newIOEnv(faults []Fault, chunk int) *ioEnv {
	return &ioEnv{faults: faults, files: map[string]*bytes.Buffer{}, inputs: map[string][]byte{}, chunk: chunk, writes: make([]WriteRec, 0, 256)}
}

// The simulated I/O objects are shared by all simulated goroutines of a run, which the simulator
// executes strictly one at a time; like simrt they are therefore excluded from race
// instrumentation and avoid maps and (where several goroutines write) growing slices.

var faultKinds = [...]string{"write_error_once", "write_error_sticky", "short_write", "create_error", "read_error", "truncate"}

//go:norace
func (e *ioEnv) fire(kind string) {
	for i, k := range faultKinds {
		if k == kind {
			e.firedN[i]++
		}
	}
}

func (e *ioEnv) firedMap() map[string]int {
	m := map[string]int{}
	for i, k := range faultKinds {
		if e.firedN[i] > 0 {
			m[k] = e.firedN[i]
		}
	}
	return m
}

var stderrArena [1 << 16]byte

//go:norace
func (e *ioEnv) sticky(dest string) *bool {
	if dest == "out" {
		return &e.stickyOut
	}
	return &e.stickyFiles
}

// simWriter is a fault-injectable destination; every Write is a visible operation.
type simWriter struct {
	env  *ioEnv
	dest string // "out" or "files"
	buf  *bytes.Buffer
	over []byte // non-nil: the file was opened without truncation; content is over[...] with writes laid over it at pos
	pos  int
}

//go:norace
func (w *simWriter) Write(p []byte) (int, error) {
	simrt.Yield("write " + w.dest)
	e := w.env
	var k int
	if w.dest == "out" {
		e.nOut++
		k = e.nOut
	} else {
		e.nFiles++
		k = e.nFiles
	}
	rec := WriteRec{Dest: w.dest, Len: len(p), Ret: len(p)}
	if *e.sticky(w.dest) {
		rec.Ret, rec.Err, rec.Fault = 0, true, "write_error_sticky"
		e.fire("write_error_sticky")
	} else {
		for _, f := range e.faults {
			if f.Dest != w.dest || f.K != k {
				continue
			}
			e.werrno = f.Errno
			switch f.Kind {
			case "write_error_once":
				rec.Ret, rec.Err, rec.Fault = 0, true, f.Kind
			case "write_error_sticky":
				rec.Ret, rec.Err, rec.Fault = 0, true, f.Kind
				*e.sticky(w.dest) = true
			case "short_write":
				rec.Ret, rec.Err, rec.Fault = len(p)/2, true, f.Kind
			default:
				continue
			}
			e.fire(f.Kind)
			break
		}
	}
	if w.over != nil {
		for _, c := range p[:rec.Ret] {
			if w.pos < len(w.over) {
				w.over[w.pos] = c
			} else {
				w.over = append(w.over, c)
			}
			w.pos++
		}
		w.buf.Reset()
		w.buf.Write(w.over)
	} else {
		w.buf.Write(p[:rec.Ret])
	}
	e.writes = append(e.writes, rec)
	if rec.Err {
		if rec.Fault == "short_write" {
			return rec.Ret, io.ErrShortWrite
		}
		return rec.Ret, writeErr(e.werrno)
	}
	return rec.Ret, nil
}

// simReader delivers a byte slice in chunks chosen by the decision stream; every Read is a visible operation.
type simReader struct {
	env   *ioEnv
	name  string
	data  []byte
	pos   int
	errAt int // -1: none
}

//go:norace
func (e *ioEnv) reader(name string, data []byte) *simReader {
	r := &simReader{env: e, name: name, data: data, errAt: -1}
	for _, f := range e.faults {
		if f.Dest != name {
			continue
		}
		switch f.Kind {
		case "truncate":
			if f.K < len(r.data) {
				r.data = r.data[:f.K]
				e.fire("truncate")
			}
		case "read_error":
			if f.K <= len(r.data) {
				r.errAt = f.K
			}
		}
	}
	return r
}

//go:norace
func (r *simReader) Read(p []byte) (int, error) {
	simrt.Yield("read " + r.name)
	if len(p) == 0 {
		return 0, nil
	}
	limit := len(r.data)
	if r.errAt >= 0 && r.errAt < limit {
		limit = r.errAt
	}
	if r.errAt >= 0 && r.pos >= r.errAt {
		r.env.fire("read_error")
		return 0, errInjectedRead
	}
	if r.pos >= limit {
		return 0, io.EOF
	}
	avail := limit - r.pos
	if avail > len(p) {
		avail = len(p)
	}
	n := avail
	mode := r.env.chunk
	if mode == 4 {
		mode = simrt.Choose(4)
	}
	switch mode {
	case 1:
		n = 1
	case 2:
		n = 2 + simrt.Choose(6)
	case 3:
		nl := bytes.IndexByte(r.data[r.pos:r.pos+avail], '\n')
		if nl >= 0 {
			switch simrt.Choose(3) {
			case 0:
				n = nl + 1
			case 1:
				n = nl // stops just before the newline (splits \r\n when nl>0 and previous is \r)
			case 2:
				n = nl + 2
			}
		}
	}
	if n < 1 {
		n = 1
	}
	if n > avail {
		n = avail
	}
	end := r.pos + n
	if end < len(r.data) && r.data[end-1] != '\n' {
		r.env.splitLine++
		if r.data[end-1] == '\r' && r.data[end] == '\n' {
			r.env.splitCRLF++
		}
	}
	copy(p, r.data[r.pos:end])
	r.pos = end
	return n, nil
}

//go:norace
func (r *simReader) Seek(off int64, whence int) (int64, error) {
	switch whence {
	case io.SeekStart:
		r.pos = int(off)
	case io.SeekCurrent:
		r.pos += int(off)
	case io.SeekEnd:
		r.pos = len(r.data) + int(off)
	}
	if r.pos < 0 {
		r.pos = 0
		return 0, errors.New("negative position")
	}
	return int64(r.pos), nil
}

//go:norace
func (r *simReader) Write(p []byte) (int, error) { return 0, os.ErrInvalid }

//go:norace
func (r *simReader) Close() error {
	r.env.nClosed++
	return nil
}

// outFile is a file created by the command under simulation.
type outFile struct {
	w    simWriter
	name string
}

//go:norace
func (f *outFile) Read(p []byte) (int, error) { return 0, os.ErrInvalid }

//go:norace
func (f *outFile) Write(p []byte) (int, error) { return f.w.Write(p) }

//go:norace
func (f *outFile) Close() error {
	f.w.env.nClosed++
	return nil
}

type stdoutFile struct{ w simWriter }

//go:norace
func (f *stdoutFile) Read(p []byte) (int, error) { return 0, os.ErrInvalid }

//go:norace
func (f *stdoutFile) Write(p []byte) (int, error) { return f.w.Write(p) }

//go:norace
func (f *stdoutFile) Close() error { return nil }

type stderrFile struct{ env *ioEnv }

//go:norace
func (f stderrFile) Read(p []byte) (int, error) { return 0, os.ErrInvalid }

//go:norace
func (f stderrFile) Write(p []byte) (int, error) {
	e := f.env
	n := copy(stderrArena[e.stderrN:], p)
	e.stderrN += n
	return len(p), nil
}

//go:norace
func (f stderrFile) Close() error { return nil }

// simrt.FS implementation

//go:norace
func (e *ioEnv) outWriter() *simWriter { return &simWriter{env: e, dest: "out", buf: &e.out} }

//go:norace
func (e *ioEnv) Open(name string) (simrt.FileImpl, error) {
	simrt.Yield("open " + name)
	d, ok := e.inputs[name]
	if !ok {
		return nil, &os.PathError{Op: "open", Path: name, Err: syscall.ENOENT}
	}
	return e.reader(name, d), nil
}

//go:norace
func (e *ioEnv) Create(name string) (simrt.FileImpl, error) {
	simrt.Yield("create " + name)
	e.nCreate++
	for _, f := range e.faults {
		if f.Kind == "create_error" && f.K == e.nCreate {
			e.fire("create_error")
			return nil, errInjectedCreate
		}
	}
	b := &bytes.Buffer{}
	if _, dup := e.files[name]; !dup {
		e.order = append(e.order, name)
	}
	e.files[name] = b
	dest := "files"
	return &outFile{w: simWriter{env: e, dest: dest, buf: b}, name: name}, nil
}

// OpenFile models the flags that matter for an output file: O_TRUNC empties it, O_APPEND starts at
// its end, otherwise writing starts at offset 0 over whatever the file already holds (pre-existing
// content comes from the case's files: a file left behind by an earlier run).
//
//go:norace
func (e *ioEnv) OpenFile(name string, flag int, perm os.FileMode) (simrt.FileImpl, error) {
	if flag&(os.O_WRONLY|os.O_RDWR) == 0 {
		return e.Open(name)
	}
	simrt.Yield("openfile " + name)
	e.nCreate++
	for _, f := range e.faults {
		if f.Kind == "create_error" && f.K == e.nCreate {
			e.fire("create_error")
			return nil, errInjectedCreate
		}
	}
	old, existed := e.inputs[name]
	if b, ok := e.files[name]; ok {
		old, existed = b.Bytes(), true
	}
	if !existed && flag&os.O_CREATE == 0 {
		return nil, &os.PathError{Op: "open", Path: name, Err: syscall.ENOENT}
	}
	b := &bytes.Buffer{}
	if _, dup := e.files[name]; !dup {
		e.order = append(e.order, name)
	}
	e.files[name] = b
	of := &outFile{w: simWriter{env: e, dest: "files", buf: b}, name: name}
	if flag&os.O_TRUNC == 0 && len(old) > 0 {
		// keep the old bytes; writes overwrite from the start (or append)
		of.w.over = append([]byte(nil), old...)
		if flag&os.O_APPEND != 0 {
			of.w.pos = len(old)
		}
		b.Write(old)
	}
	return of, nil
}

//go:norace
func (e *ioEnv) MkdirAll(path string, perm os.FileMode) error {
	e.dirs = append(e.dirs, path)
	return nil
}

//go:norace
func (e *ioEnv) Stdin() simrt.FileImpl {
	return e.reader("stdin", e.inputs["stdin"])
}

//go:norace
func (e *ioEnv) Stdout() simrt.FileImpl {
	return &stdoutFile{w: simWriter{env: e, dest: "out", buf: &e.out}}
}

//go:norace
func (e *ioEnv) Stderr() simrt.FileImpl { return stderrFile{e} }
