package main

import (
	"fmt"
	"strconv"
	"strings"

	"verif/simrt"
)

// C19 — a failed output write is never reported as success.
//
// Trial = one valid input of one command form. Gen measures, with a fault-free baseline run,
// how many Write calls W the command makes on its output (and on files it creates), then
// enumerates every fault point k = 1..W+1 x {once, sticky, short} (k = W+1 never fires and is
// the control), plus every Create call for toPairAlign's directory mode, each under
// `sched` schedules. Check executes them all.

func init() {
	register(&Prop{
		ID: "C19", Level: "fault_enumeration", Quick: 80 * 36, Thorough: 2500 * 36,
		Rule:        "trial = (command form, generated valid input); every Write call index k=1..W+1 of the fault-free run x {write_error_once, write_error_sticky, short_write} (+ every Create for toPairAlign directory output) is enumerated, each under several seeded schedules; a trial is non-trivial if at least one injected fault actually fired; distinct = distinct (input, options)",
		Gen:         genC19,
		Check:       checkC19,
		Required:    []string{"write_error_once", "write_error_sticky", "short_write", "create_error"},
		Assumptions: []string{"exit status: an error returned by the exported entry point becomes exit status 1 in cmd/root.go (not simulated); a panic is a non-zero exit"},
	})
	exhaustiveNote["C19/quick"] = "per trial the fault-point range k=1..W+1 is enumerated completely for each fault mode"
	exhaustiveNote["C19/thorough"] = exhaustiveNote["C19/quick"]
}

// the command forms C19 ranges over: the library entry points, and the real command line writing to --outfile
var c19Forms = append(append([]string{}, allCmds...), "cli-o:toma", "cli-o:variants", "cli-o:samvariants", "cli-o:snps", "cli-o:snps-agg", "cli-o:closest", "cli-o:closestn", "cli-o:updownlist", "cli-o:topranking", "indels", "cli:indels",
	// ... and writing to standard output (no --outfile)
	"cli:toma", "cli:topa-stdout", "cli:variants", "cli:samvariants", "cli:snps", "cli:closest", "cli:closestn", "cli:updownlist", "cli:topranking",
	// every command: the licence text, and `sam indels` with its insertions table on standard output
	"cli:licences", "cli:indels-stdout")

func genC19(r *Rand, tier string, ord int) *Trial {
	form := c19Forms[ord%len(c19Forms)]
	var c *Case
	if form == "cli:licences" {
		c = &Case{Cmd: "cli", Files: map[string]string{}, Opts: Opts{Args: []string{"licences"}, Threads: 1}}
	} else if form == "cli:indels-stdout" {
		cc, ok := cliCase(genCmdCase(r, "indels", caseSize{}))
		if !ok {
			return nil
		}
		for i, a := range cc.Opts.Args {
			if a == "--insertions-out" {
				cc.Opts.Args[i+1] = "stdout"
			}
		}
		c = cc
	} else if strings.HasPrefix(form, "cli:") {
		cc, ok := cliCase(genCmdCase(r, strings.TrimPrefix(form, "cli:"), caseSize{}))
		if !ok {
			return nil
		}
		c = cc
	} else if strings.HasPrefix(form, "cli-o:") {
		pk := genCmdCase(r, strings.TrimPrefix(form, "cli-o:"), caseSize{})
		cc, ok := cliCase(pk)
		if !ok {
			return nil
		}
		cc.Opts.Args = append(cc.Opts.Args, "-o", "result.out")
		c = cc
	} else {
		c = genCmdCase(r, form, caseSize{})
	}
	t := &Trial{Kind: form, Case: *c}
	sched := 3
	if tier == "thorough" {
		sched = 8
	}
	// baseline under P0 to learn W
	base := P0()
	base.Explicit = true
	t.Runs = []RunCfg{base}
	saveTap := tapEnabled
	tapEnabled = false
	res := Exec(&t.Case, &t.Runs[0])
	tapEnabled = saveTap
	if res.Out.Kind != simrt.Returned || res.Err != nil {
		// not C19's business; Check will discard
		return t
	}
	wOut, wFiles, nCreate := 0, 0, len(res.Files)
	for _, w := range res.Writes {
		if w.Dest == "out" {
			wOut++
		} else {
			wFiles++
		}
	}
	if strings.HasSuffix(form, "indels") { // (not cli:indels-stdout: there standard output is a destination of the command)
		// `sam indels` prints a deprecation notice on standard output and writes its two tables to files:
		// the notice is not the command's output, only the file writes are enumerated
		wOut = 0
		if form == "indels" {
			nCreate = 0
		}
	}
	add := func(f Fault) {
		for s := 0; s < sched; s++ {
			rc := genRunCfg(r)
			if s == 0 {
				rc = P0()
				rc.Threads = r.PickInt(1, 2, 4)
			}
			rc.Chunk = 0
			if f.Kind != "create_error" && f.Kind != "short_write" {
				// which error the destination reports varies with the schedule index: a command must not
				// treat any of them (full device, closed pipe, I/O error, quota, an untyped error) as success
				f.Errno = writeErrnos[(s+f.K)%len(writeErrnos)]
			}
			rc.Faults = []Fault{f}
			t.Runs = append(t.Runs, rc)
		}
	}
	for _, mode := range []string{"write_error_once", "write_error_sticky", "short_write"} {
		for k := 1; k <= wOut+1 && (wOut > 0 || k == 1); k++ {
			if wOut == 0 {
				break
			}
			add(Fault{Kind: mode, Dest: "out", K: k})
		}
		for k := 1; k <= wFiles+1; k++ {
			if wFiles == 0 {
				break
			}
			add(Fault{Kind: mode, Dest: "files", K: k})
		}
	}
	for j := 1; j <= nCreate; j++ {
		add(Fault{Kind: "create_error", K: j})
	}
	t.Params = map[string]string{"w_out": strconv.Itoa(wOut), "w_files": strconv.Itoa(wFiles), "creates": strconv.Itoa(nCreate)}
	return t
}

func checkC19(t *Trial, ctx *Ctx) *Failure {
	base := ctx.Run(t, 0, &t.Case)
	if base.Out.Kind != simrt.Returned || base.Err != nil {
		ctx.Discard("baseline run did not succeed: " + t.Kind + ": " + firstLine(base.Describe()))
		return nil
	}
	only := -1
	if v, ok := t.Params["only"]; ok {
		only, _ = strconv.Atoi(v)
	}
	wOut, _ := strconv.Atoi(t.Params["w_out"])
	wFiles, _ := strconv.Atoi(t.Params["w_files"])
	fired := false
	for i := 1; i < len(t.Runs); i++ {
		if only >= 0 && i != only {
			continue
		}
		if len(t.Runs[i].Faults) != 1 {
			continue
		}
		f := t.Runs[i].Faults[0]
		res := ctx.Run(t, i, &t.Case)
		nf := 0
		for _, w := range res.Writes {
			if w.Err {
				nf++
			}
		}
		nf += res.Fired["create_error"]
		where := "row"
		switch {
		case f.Kind == "create_error":
			where = "create"
		case f.K == 1:
			where = "first-write"
		case f.Dest == "out" && f.K == wOut || f.Dest == "files" && f.K == wFiles:
			where = "last-write"
		}
		fail := func(what, detail string) *Failure {
			if t.Params == nil {
				t.Params = map[string]string{}
			}
			// keep only the baseline and the failing run in the replay file
			t.Runs = []RunCfg{t.Runs[0], t.Runs[i]}
			t.Params["only"] = "1"
			return &Failure{Class: fmt.Sprintf("C19/%s{%s,%s,%s}", what, t.Kind, f.Kind, where),
				Detail: fmt.Sprintf("command form %s, fault %s on %q at call %d (of %d out / %d file writes): %s\n%s", t.Kind, f.Kind, f.Dest, f.K, wOut, wFiles, detail, res.Describe())}
		}
		if nf > 0 {
			fired = true
			switch res.Out.Kind {
			case simrt.Returned:
				if res.Err == nil {
					return fail("success-after-write-fault", fmt.Sprintf("%d write/create call(s) failed but the command returned nil (exit status 0)", nf))
				}
			case simrt.Deadlocked:
				return fail("hang-after-write-fault", "the command never terminates after the write failure")
			}
			continue
		}
		// control: the fault never fired, so the run must succeed with the baseline's bytes
		if res.Out.Kind == simrt.Deadlocked {
			return fail("hang-without-fault", "deadlock in a run where no fault fired")
		}
		if res.Out.Kind == simrt.Returned && res.Err == nil && t.Kind != "topa-stdout" && res.outputKey() != base.outputKey() {
			ctx.Probe("control_output_differs_from_baseline", 1) // C12's business, only counted here
		}
	}
	if fired {
		ctx.Nontrivial()
	}
	return nil
}
