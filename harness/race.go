package main

import "fmt"

// race batch of C12: implemented in race_impl.go once the -race build is wired up.
func raceBatch(raceBin, work, tier string, seed uint64, workers int, verifDir string) ([]violationRec, map[string]interface{}) {
	return raceBatchImpl(raceBin, work, tier, seed, workers, verifDir)
}

func raceWorker(args []string) { raceWorkerImpl(args) }

var _ = fmt.Sprint
