package main

import (
	"bytes"
	"fmt"
	"io"
	"sort"
	"strings"

	gcmd "github.com/virus-evolution/gofasta/cmd"
	"github.com/virus-evolution/gofasta/pkg/closest"
	"github.com/virus-evolution/gofasta/pkg/sam"
	"github.com/virus-evolution/gofasta/pkg/snps"
	"github.com/virus-evolution/gofasta/pkg/updown"
	"github.com/virus-evolution/gofasta/pkg/variants"
	"verif/simrt"
)

// Opts holds every option of every command (unused ones stay zero).
type Opts struct {
	Threads int `json:"threads,omitempty"`
	// sam toMultiAlign / toPairAlign
	Wrap    int    `json:"wrap,omitempty"`
	Start   int    `json:"start,omitempty"`
	End     int    `json:"end,omitempty"`
	Pad     bool   `json:"pad,omitempty"`
	OmitRef bool   `json:"omitref,omitempty"`
	OmitIns bool   `json:"omitins,omitempty"`
	OutDir  string `json:"outdir,omitempty"` // "stdout" or a directory
	// variants / sam variants
	Stdin       bool    `json:"stdin,omitempty"`
	RefID       string  `json:"refid,omitempty"`
	RefFromFile bool    `json:"reffromfile,omitempty"`
	AnnoSuffix  string  `json:"annosuffix,omitempty"`
	Aggregate   bool    `json:"aggregate,omitempty"`
	Threshold   float64 `json:"threshold,omitempty"`
	AppendSNP   bool    `json:"appendsnp,omitempty"`
	// snps
	HardGaps bool `json:"hardgaps,omitempty"`
	// closest
	Measure string  `json:"measure,omitempty"`
	N       int     `json:"n,omitempty"`
	MaxDist float64 `json:"maxdist,omitempty"`
	Table   bool    `json:"table,omitempty"`
	// updown topranking
	QType      string   `json:"qtype,omitempty"`
	TType      string   `json:"ttype,omitempty"`
	Ignore     []string `json:"ignore,omitempty"`
	SizeTotal  int      `json:"sizetotal,omitempty"`
	SizeUp     int      `json:"sizeup,omitempty"`
	SizeDown   int      `json:"sizedown,omitempty"`
	SizeSide   int      `json:"sizeside,omitempty"`
	SizeSame   int      `json:"sizesame,omitempty"`
	DistAll    int      `json:"distall,omitempty"`
	DistUp     int      `json:"distup,omitempty"`
	DistDown   int      `json:"distdown,omitempty"`
	DistSide   int      `json:"distside,omitempty"`
	ThreshPair float32  `json:"threshpair,omitempty"`
	ThreshTarg int      `json:"threshtarg,omitempty"`
	NoFill     bool     `json:"nofill,omitempty"`
	DistPush   int      `json:"distpush,omitempty"`
	MinCount   int      `json:"mincount,omitempty"` // sam indels --threshold
	// cli: the real cobra command line (files are looked up in Case.Files)
	Args []string `json:"args,omitempty"`
}

// Case is the explicit input of one command invocation.
type Case struct {
	Cmd   string            `json:"cmd"`
	Files map[string]string `json:"files"`
	Opts  Opts              `json:"opts"`
	// Warm, when set, is an earlier call of a library command in the same simulated process (its own
	// input, no faults, output thrown away): package-level state it leaves behind is what the call under test meets.
	Warm *Case `json:"warm,omitempty"`
}

// RunCfg is everything about one execution that is not the command's input:
// schedule source, knobs, read chunking, faults.
type RunCfg struct {
	Seed     uint64         `json:"seed"`
	Strat    simrt.Strategy `json:"strat"`
	NumCPU   int            `json:"numcpu"`
	MaxProcs int            `json:"maxprocs,omitempty"` // GOMAXPROCS at start; 0: = NumCPU
	MapMode  int            `json:"mapmode"`
	Chunk    int            `json:"chunk"`
	Threads  int            `json:"threads"` // 0: keep Case.Opts.Threads
	Faults   []Fault        `json:"faults,omitempty"`
	Replay   []int32        `json:"replay,omitempty"`
	Arity    []int32        `json:"arity,omitempty"`
	Explicit bool           `json:"explicit,omitempty"` // Replay is authoritative (even if empty)
}

// Result is what one simulated execution produced.
type Result struct {
	Out                  simrt.Outcome
	Err                  error
	Stdout               []byte
	Stderr               []byte
	Files                map[string][]byte
	FileOrder            []string
	Writes               []WriteRec
	Fired                map[string]int
	SplitLine, SplitCRLF int
	Tap                  *tapStats
}

func (r *Result) ErrString() string {
	if r.Err == nil {
		return ""
	}
	return r.Err.Error()
}

// Describe is a compact rendering for reports.
func (r *Result) Describe() string {
	switch r.Out.Kind {
	case simrt.Returned:
		if r.Err != nil {
			return "returned error: " + r.Err.Error()
		}
		return fmt.Sprintf("returned nil, %d bytes", len(r.Stdout))
	case simrt.Panicked:
		return "panicked: " + firstLine(r.Out.PanicValue)
	case simrt.Deadlocked:
		return "deadlocked:\n" + simrt.FormatBlocked(r.Out.Blocked)
	}
	return r.Out.Kind.String()
}

func firstLine(s string) string {
	if i := strings.IndexByte(s, '\n'); i >= 0 {
		return s[:i]
	}
	return s
}

// P0 is the baseline run configuration: run-to-block schedule, one CPU, sorted maps, whole-buffer reads.
func P0() RunCfg { return RunCfg{NumCPU: 1, Threads: 1} }

var tapEnabled = true

// Exec runs one command under the simulator.
func Exec(c *Case, rc *RunCfg) *Result {
	env := newIOEnv(rc.Faults, rc.Chunk)
	for k, v := range c.Files {
		env.inputs[k] = []byte(v)
	}
	o := c.Opts
	if rc.Threads > 0 {
		o.Threads = rc.Threads
	}
	if o.Threads <= 0 {
		o.Threads = 1
	}
	cfg := simrt.Config{Seed: rc.Seed, Strategy: rc.Strat, NumCPU: rc.NumCPU, MaxProcs: rc.MaxProcs, MapMode: rc.MapMode, FS: env, MaxSteps: stepLimit(c)}
	if rc.Explicit || rc.Replay != nil {
		cfg.Replay = rc.Replay
		if cfg.Replay == nil {
			cfg.Replay = []int32{}
		}
		cfg.ReplayArity = rc.Arity
	}
	res := &Result{}
	if tapEnabled {
		res.Tap = &tapStats{}
		cfg.Tap = res.Tap.tap
	}
	out := env.outWriter()
	var call func(c *Case, o Opts, env *ioEnv, out *simWriter) error
	body := func() {
		if c.Warm != nil {
			wenv := newIOEnv(nil, 0)
			for k, v := range c.Warm.Files {
				wenv.inputs[k] = []byte(v)
			}
			wo := c.Warm.Opts
			wo.Threads = o.Threads
			_ = call(c.Warm, wo, wenv, wenv.outWriter())
		}
		res.Err = call(c, o, env, out)
	}
	call = func(c *Case, o Opts, env *ioEnv, out *simWriter) (err error) {
		in := func(name string) io.Reader { return env.reader(name, env.inputs[name]) }
		switch c.Cmd {
		case "toma":
			err = sam.ToMultiAlign(in("sam"), out, o.Wrap, o.Start, o.End, o.Pad, o.Threads)
		case "topa":
			err = sam.ToPairAlign(in("sam"), in("ref"), o.OutDir, o.Wrap, o.Start, o.End, o.OmitRef, o.OmitIns, o.Threads)
		case "indels":
			// both tables go to files; standard output only carries the deprecation notice
			ins, del := &bytes.Buffer{}, &bytes.Buffer{}
			env.files["insertions.txt"], env.files["deletions.txt"] = ins, del
			env.order = append(env.order, "insertions.txt", "deletions.txt")
			err = sam.Indels(in("sam"), &simWriter{env: env, dest: "files", buf: ins}, &simWriter{env: env, dest: "files", buf: del}, o.MinCount)
		case "samvariants":
			err = sam.Variants(in("sam"), in("ref"), o.RefFromFile, in("anno"), o.AnnoSuffix, out, o.Start, o.End, o.Aggregate, o.Threshold, o.AppendSNP, o.Threads)
		case "variants":
			var msa io.Reader
			if realMode {
				msa = bytes.NewReader(env.inputs["msa"])
			} else if o.Stdin {
				msa = simrt.NewFile("/dev/stdin", env.reader("msa", env.inputs["msa"]))
			} else {
				msa = simrt.NewFile("msa.fasta", env.reader("msa", env.inputs["msa"]))
			}
			err = variants.Variants(msa, o.Stdin, o.RefID, in("anno"), o.AnnoSuffix, out, o.Start, o.End, o.Aggregate, o.Threshold, o.AppendSNP, o.Threads)
		case "snps":
			err = snps.SNPs(in("ref"), in("query"), o.HardGaps, o.Aggregate, o.Threshold, out)
		case "closest":
			err = closest.Closest(in("query"), in("target"), o.Measure, out, o.Threads)
		case "closestn":
			err = closest.ClosestN(o.N, o.MaxDist, in("query"), in("target"), o.Measure, out, o.Table, o.Threads)
		case "cli":
			err = gcmd.VerifExecute(o.Args)
		case "updownlist":
			err = updown.List(in("ref"), in("query"), out)
		case "topranking":
			err = updown.TopRanking(in("query"), in("target"), in("ref"), out, o.Table, o.QType, o.TType, o.Ignore,
				o.SizeTotal, o.SizeUp, o.SizeDown, o.SizeSide, o.SizeSame, o.DistAll, o.DistUp, o.DistDown, o.DistSide,
				o.ThreshPair, o.ThreshTarg, o.NoFill, o.DistPush)
		default:
			if f, ok := extraCmds[c.Cmd]; ok {
				err = f(c, &o, env, out)
			} else {
				panic("harness: unknown command " + c.Cmd)
			}
		}
		return err
	}
	if realMode {
		// the untransformed tree on the real Go runtime (translation-validation self-test only)
		func() {
			defer func() {
				if r := recover(); r != nil {
					res.Out.Kind, res.Out.PanicValue = simrt.Panicked, fmt.Sprint(r)
				}
			}()
			body()
		}()
	} else {
		res.Out = simrt.Run(cfg, body)
	}
	res.Stdout = env.out.Bytes()
	res.Stderr = append([]byte(nil), stderrArena[:env.stderrN]...)
	res.Writes = env.writes
	res.Fired = env.firedMap()
	res.SplitLine, res.SplitCRLF = env.splitLine, env.splitCRLF
	if len(env.files) > 0 {
		res.Files = map[string][]byte{}
		for k, b := range env.files {
			res.Files[k] = b.Bytes()
		}
		res.FileOrder = env.order
	}
	return res
}

// extraCmds are harness-defined simulated programs (reader protocol consumers, cmd-level entry).
var extraCmds = map[string]func(c *Case, o *Opts, env *ioEnv, out *simWriter) error{}

// stepLimit bounds the visible operations of a run: the pipelines have no polling loops, so the
// number of operations is linear in records x stages; exceeding this is reported as inconclusive.
func stepLimit(c *Case) int {
	n := 0
	for _, v := range c.Files {
		n += len(v)
	}
	if c.Warm != nil {
		n += 500
		for _, v := range c.Warm.Files {
			n += len(v)
		}
	}
	return 20000 + 40*n
}

// outputKey renders everything a command wrote to its output destination(s), canonically.
func (r *Result) outputKey() string {
	if len(r.Files) == 0 {
		return string(r.Stdout)
	}
	names := make([]string, 0, len(r.Files))
	for k := range r.Files {
		names = append(names, k)
	}
	sort.Strings(names)
	var sb strings.Builder
	sb.Write(r.Stdout)
	for _, k := range names {
		fmt.Fprintf(&sb, "\x00FILE %s\x00%s", k, r.Files[k])
	}
	return sb.String()
}
