package main

import (
	"fmt"
	"strings"

	"verif/simrt"
)

// C09 — updown topranking gives identical results for CSV and FASTA inputs.
//
// Trial = (reference, m queries, n targets, option set). Runs 0,1: simulated `updown list` of the
// queries and of the targets (their output is the CSV form); runs 2..: topranking in the four
// input-type combinations, each under its own seeded schedule. Oracle: the four outputs are
// byte-identical, have one data row per query in query-file order (table form: groups in query order).

// genTROpts draws a topranking option set (shared with C08).
func genTROpts(r *Rand, targetNames []string) Opts {
	o := Opts{ThreshPair: 0.1, ThreshTarg: 10000}
	switch r.Intn(6) {
	case 0:
		o.DistPush = r.Range(1, 3)
	case 1:
		o.SizeTotal = r.Range(1, 12)
	case 2:
		o.SizeUp, o.SizeDown, o.SizeSide, o.SizeSame = r.Range(0, 3), r.Range(0, 3), r.Range(0, 3), r.Range(0, 3)
		if o.SizeUp+o.SizeDown+o.SizeSide+o.SizeSame == 0 {
			o.SizeUp = 1
		}
	case 3:
		o.DistAll = r.Range(1, 4)
	case 4:
		o.DistUp, o.DistDown, o.DistSide = r.Range(0, 3), r.Range(0, 3), r.Range(0, 3)
		if o.DistUp+o.DistDown+o.DistSide == 0 {
			o.DistSide = 1
		}
	case 5:
		o.SizeUp, o.SizeDown, o.SizeSide, o.SizeSame = r.Range(0, 3), r.Range(0, 3), r.Range(0, 3), r.Range(1, 3)
		if r.Bool() {
			o.DistAll = r.Range(1, 4)
		} else {
			o.DistUp, o.DistDown, o.DistSide = r.Range(1, 3), r.Range(0, 3), r.Range(0, 3)
		}
	}
	o.NoFill = r.P(0.3)
	o.Table = r.P(0.4)
	if r.P(0.3) {
		o.ThreshPair = []float32{0, 0.05, 0.25, 0.5, 1}[r.Intn(5)]
	}
	if r.P(0.3) {
		o.ThreshTarg = r.PickInt(0, 1, 2, 5)
	}
	if r.P(0.2) && len(targetNames) > 0 {
		for k := r.Range(1, 2); k > 0; k-- {
			o.Ignore = append(o.Ignore, targetNames[r.Intn(len(targetNames))])
		}
	}
	return o
}

// genUpdownAln makes query/target alignments that share SNPs with each other (so that all four bins occur).
func genUpdownAln(r *Rand, w, nq, nt int) (ref string, q, t Aln) {
	ref = genRefSeq(r, w)
	// a small pool of mutations that sequences draw from, so SNPs are shared between sequences
	type mut struct {
		pos int
		b   byte
	}
	pool := make([]mut, r.Range(1, 6))
	for i := range pool {
		pool[i] = mut{r.Intn(w), "ACGT"[r.Intn(4)]}
	}
	mk := func(prefix string, n int) Aln {
		a := Aln{}
		for i := 0; i < n; i++ {
			b := []byte(ref)
			for _, m := range pool {
				if r.P(0.4) {
					b[m.pos] = m.b
				}
			}
			if r.P(0.3) {
				b[r.Intn(w)] = "ACGT"[r.Intn(4)]
			}
			if r.P(0.35) { // ambiguity tract
				s := r.Intn(w)
				for k := r.Range(1, 3); k > 0 && s < w; k, s = k-1, s+1 {
					b[s] = "N-?RY"[r.Intn(5)]
				}
			}
			a.Names = append(a.Names, fmt.Sprintf("%s%d", prefix, i+1))
			a.Seqs = append(a.Seqs, string(b))
		}
		return a
	}
	return ref, mk("q", nq), mk("t", nt)
}

func init() {
	register(&Prop{
		ID: "C09", Level: "exploration", Quick: 48000, Thorough: 3000000,
		Rule:          "trial = (reference, 1..5 queries, 1..14 targets sharing SNPs and ambiguity tracts, topranking option set); `updown list` of queries and targets is simulated to obtain the CSV forms, then topranking runs in the four csv/fasta combinations under independent seeded schedules; non-trivial = at least 2 queries and at least one query has a non-empty bin; distinct = distinct (inputs, options)",
		ShrinkColumns: true,
		Gen:           genC09,
		Check:         checkC09,
	})
}

func genC09(r *Rand, tier string, ord int) *Trial {
	w := r.Range(3, 20)
	nq, nt := r.Range(1, 5), r.Range(1, 14)
	kind, sub := "topranking-4combos", "generated"
	switch {
	case r.P(0.002):
		w, nq, nt, kind, sub = r.Range(2, 4), r.Range(1, 2), r.Range(1030, 1400), "topranking-4combos-thousand-targets", "generated-thousand-targets"
	case r.P(0.004):
		w, nq, nt, kind, sub = r.Range(3, 6), r.Range(1, 3), r.Range(100, 300), "topranking-4combos-hundreds-of-targets", "generated-hundreds-of-targets"
	case r.P(0.003): // wide enough for a csv row (one record's SNP list) of more than 64 KiB
		w, nq, nt, kind, sub = r.Range(11000, 14000), r.Range(1, 2), r.Range(2, 5), "topranking-4combos-wide", "generated-wide"
		if r.P(0.3) {
			w = scaleWidthUpTo(r, 16)
		}
	}
	ref, q, tg := genUpdownAln(r, w, nq, nt)
	if sub == "generated-wide" {
		// one record that differs from the reference everywhere, not the last one
		k := r.Intn(len(tg.Seqs))
		if k == len(tg.Seqs)-1 && k > 0 {
			k--
		}
		b := []byte(tg.Seqs[k])
		for i := range b {
			b[i] = "CGTA"[strings.IndexByte("ACGT", ref[i])]
		}
		tg.Seqs[k] = string(b)
		if r.Bool() {
			q.Seqs[0] = tailSNPs(r, ref, string(b))
		}
	}
	layQ, layT := genLayout(r), genLayout(r)
	if sub == "generated-wide" {
		layQ, layT = wideLayout(r), wideLayout(r)
	}
	c := Case{Cmd: "topranking", Files: map[string]string{"ref": ">ref\n" + ref + "\n", "query": q.FASTA(layQ), "target": tg.FASTA(layT)}}
	c.Opts = genTROpts(r, tg.Names)
	c.Opts.Threads = 1
	t := &Trial{Kind: kind, Case: c, Params: map[string]string{}}
	t.Runs = genRunCfgs(r, 6)
	manyTargetRuns(r, t.Runs, sub, nt)
	if sub != "generated" {
		return t
	}
	if r.P(0.3) { // keep some trials entirely on the baseline policy: a failure there needs no schedule at all
		for i := range t.Runs {
			t.Runs[i] = P0()
			t.Runs[i].NumCPU = r.PickInt(1, 2, 4)
		}
	}
	return t
}

var combos = [4][2]string{{"fasta", "fasta"}, {"csv", "csv"}, {"csv", "fasta"}, {"fasta", "csv"}}

func checkC09(t *Trial, ctx *Ctx) *Failure {
	c := &t.Case
	var csv [2]string
	for i, f := range []string{"query", "target"} {
		lc := &Case{Cmd: "updownlist", Files: map[string]string{"ref": c.Files["ref"], "query": c.Files[f]}}
		res := ctx.Run(t, i, lc)
		if res.Out.Kind != simrt.Returned || res.Err != nil {
			ctx.Discard("updown list did not succeed on the generated alignment")
			return nil
		}
		csv[i] = string(res.Stdout)
	}
	var names []string
	if qq, _ := parseFasta(c.Files["query"]); true {
		for _, rc := range qq {
			names = append(names, strings.Fields(rc.head[1:])[0])
		}
	}
	var outs [4]string
	for k, cb := range combos {
		cc := *c
		cc.Files = map[string]string{"ref": c.Files["ref"], "query": c.Files["query"], "target": c.Files["target"]}
		cc.Opts.QType, cc.Opts.TType = cb[0], cb[1]
		if cb[0] == "csv" {
			cc.Files["query"] = csv[0]
		}
		if cb[1] == "csv" {
			cc.Files["target"] = csv[1]
		}
		res := ctx.Run(t, 2+k, &cc)
		tag := fmt.Sprintf("query=%s,target=%s", cb[0], cb[1])
		if res.Out.Kind != simrt.Returned {
			return &Failure{Class: fmt.Sprintf("C09/%s{%s}", res.Out.Signature(), tag), Detail: "topranking did not return: " + res.Describe()}
		}
		if res.Err != nil {
			return &Failure{Class: fmt.Sprintf("C09/error{%s}", tag), Detail: "topranking refused a valid input: " + res.ErrString()}
		}
		outs[k] = string(res.Stdout)
		// one row per query, in query-file order
		lines := strings.Split(strings.TrimSuffix(outs[k], "\n"), "\n")
		rows := lines[1:]
		if !c.Opts.Table {
			ok := len(rows) == len(names)
			for i := 0; ok && i < len(rows); i++ {
				if !strings.HasPrefix(rows[i], names[i]+",") {
					ok = false
				}
			}
			if !ok {
				return &Failure{Class: fmt.Sprintf("C09/rows-not-one-per-query-in-order{%s}", tag),
					Detail: fmt.Sprintf("%d queries (%s) but the output (%s) is:\n%s", len(names), strings.Join(names, ","), tag, outs[k])}
			}
			if len(names) >= 2 && strings.Trim(strings.Join(rows, ""), "q0123456789,") != "" {
				ctx.Nontrivial()
			}
		} else {
			last := -1
			for _, row := range rows {
				qi := -1
				for i, n := range names {
					if strings.HasPrefix(row, n+",") {
						qi = i
					}
				}
				if qi < last || qi < 0 {
					return &Failure{Class: fmt.Sprintf("C09/table-groups-out-of-query-order{%s}", tag), Detail: fmt.Sprintf("queries %s; output (%s):\n%s", strings.Join(names, ","), tag, outs[k])}
				}
				last = qi
			}
			if len(names) >= 2 && len(rows) > 0 {
				ctx.Nontrivial()
			}
		}
	}
	for k := 1; k < 4; k++ {
		if outs[k] != outs[0] {
			return &Failure{Class: fmt.Sprintf("C09/output-differs{query=%s,target=%s vs fasta/fasta}", combos[k][0], combos[k][1]),
				Detail: fmt.Sprintf("same data, different input formats, different output.\n--- fasta/fasta:\n%s--- %s/%s:\n%s", outs[0], combos[k][0], combos[k][1], outs[k])}
		}
	}
	return nil
}
