package main

import (
	"encoding/json"
	"fmt"
	"sort"
	"strconv"
	"strings"

	"verif/simrt"
)

// C13 — --aggregate frequencies are exactly the per-sequence results, counted.
//
// Trial = (command in {snps, variants gb/gff, sam variants}, generated input, threshold,
// append-snps). Run 0: per-sequence mode; runs 1..: aggregate mode under perturbed arrival
// orders and map orders (the aggregators do not re-order and iterate Go maps). Oracle: the
// aggregate output, as a multiset of lines, equals the mutations of the per-sequence output
// counted per sequence, count/n printed to 9 decimals, kept iff count/n >= threshold (same
// float64 division); positions of nuc/del/ins rows are non-decreasing down the file.

func init() {
	register(&Prop{
		ID: "C13", Level: "exploration", Quick: 40000, Thorough: 2000000,
		Rule:  "trial = (snps | variants(gb,gff) | sam variants, generated input with shared mutations, threshold drawn from {0, an occurring frequency, between two occurring frequencies, 1}, append-snps); per-sequence mode once and aggregate mode under 4 (quick) / 10 (thorough) seeded schedules and map orders; non-trivial = at least 2 sequences, at least 2 distinct mutations and at least one mutation shared by two sequences; distinct = distinct (input, options)",
		Gen:   genC13,
		Check: checkC13,
	})
}

var c13Forms = []string{"snps", "variants-gb", "variants-gff", "samvariants", "variants-dupfeat"}

func genC13(r *Rand, tier string, ord int) *Trial {
	form := c13Forms[ord%len(c13Forms)]
	var c *Case
	annoJSON := ""
	switch form {
	case "snps":
		w := r.Range(1, 16)
		nq := r.Range(1, 9)
		if r.P(0.12) {
			nq = r.Range(25, 110)
		}
		ref, _, q := genUpdownAln(r, w, 0, nq)
		if r.P(0.3) {
			q = genAln(r, ref, alnSpec{W: w, N: r.Range(1, 9), Prof: -1, SNP: 0.2, Prefix: "q", Dup: 0.2})
		}
		lay := genLayout(r)
		if r.P(0.003) { // widths around powers of two up to 2^17 (gen.go, scale): shared mutations near the end
			w = scaleWidth(r)
			ref = genRefSeq(r, w)
			base := tailSNPs(r, ref, ref)
			q = genAln(r, base, alnSpec{W: w, N: r.Range(2, 5), Prof: profACGT, SNP: 0.0005, Prefix: "q", Dup: 0.3})
			for i := range q.Seqs {
				if r.Bool() {
					q.Seqs[i] = tailSNPs(r, ref, q.Seqs[i])
				}
			}
			lay.Width = r.PickInt(0, 0, 60, 80)
		}
		c = &Case{Cmd: "snps", Files: map[string]string{"ref": ">ref\n" + ref + "\n", "query": q.FASTA(lay)}}
		c.Opts.HardGaps = r.P(0.3)
	case "variants-gb", "variants-gff":
		w := r.Range(6, 30)
		nseq := r.Range(1, 9)
		if r.P(0.05) {
			nseq = r.Range(49, 70) // right at the 50+threads channel capacities
		} else if r.P(0.12) {
			nseq = r.Range(25, 110) // denominators for which count/n, threshold*n and count*(1/n) round differently
		}
		ref, _, q := genUpdownAln(r, w, 0, nseq)
		an := genAnno(r, ref, true, 0.2)
		all := Aln{Names: append([]string{"ref"}, q.Names...), Seqs: append([]string{ref}, q.Seqs...)}
		if r.P(0.3) { // gaps: deletions in queries
			for i := 1; i < len(all.Seqs); i++ {
				b := []byte(all.Seqs[i])
				s := r.Intn(w)
				for k := r.Range(1, 3); k > 0 && s < w; k, s = k-1, s+1 {
					b[s] = '-'
				}
				all.Seqs[i] = string(b)
			}
		}
		refFirst := true
		if k := r.Intn(len(all.Names)); k > 0 && r.P(0.4) { // the reference record need not come first in a file
			all.Names[0], all.Names[k] = all.Names[k], all.Names[0]
			all.Seqs[0], all.Seqs[k] = all.Seqs[k], all.Seqs[0]
			refFirst = false
		}
		c = &Case{Cmd: "variants", Files: map[string]string{"msa": all.FASTA(genLayout(r))}}
		c.Opts.RefID = "ref"
		// piped alignment, reference first: the reference is taken off the stream before the workers start
		c.Opts.Stdin = refFirst && r.P(0.35)
		if form == "variants-gb" {
			c.Files["anno"], c.Opts.AnnoSuffix = an.GenBank(ref), "gb"
		} else {
			c.Files["anno"], c.Opts.AnnoSuffix = an.GFF(ref, true), "gff"
		}
		c.Opts.Start, c.Opts.End = -1, -1
		c.Opts.AppendSNP = r.P(0.4)
		ab, _ := json.Marshal(an)
		annoJSON = string(ab)
	case "samvariants":
		c = genCmdCase(r, "samvariants", caseSize{})
		c.Opts.Aggregate = false
		c.Opts.AppendSNP = r.P(0.4)
		if c.Opts.RefFromFile && r.P(0.12) {
			// the reference itself was left in the mapped file: a read group called like the --reference record
			// (it is no query sequence: neither mode reports or counts it)
			if strings.HasPrefix(c.Files["ref"], ">ref\n") && strings.Contains(c.Files["sam"], "\nq2\t") {
				c.Files["sam"] = strings.ReplaceAll(c.Files["sam"], "\nq1\t", "\nref\t")
			}
		}
	case "variants-dupfeat":
		// the same printed mutation arising in either copy of a repeated coding segment (two features, one name)
		ref, an, all := genDupFeature(r, r.Range(2, 9))
		c = &Case{Cmd: "variants", Files: map[string]string{"msa": all.FASTA(genLayout(r))}}
		c.Opts.RefID = "ref"
		if r.Bool() {
			c.Files["anno"], c.Opts.AnnoSuffix = an.GenBank(ref), "gb"
		} else {
			c.Files["anno"], c.Opts.AnnoSuffix = an.GFF(ref, true), "gff"
		}
		c.Opts.Start, c.Opts.End = -1, -1
		c.Opts.AppendSNP = r.P(0.4)
		ab, _ := json.Marshal(an)
		annoJSON = string(ab)
	}
	c.Opts.Threads = 1
	c.Opts.Threshold = 0
	t := &Trial{Kind: form, Case: *c, Params: map[string]string{"thr_mode": strconv.Itoa(r.Intn(5)), "thr_u": strconv.FormatFloat(r.Float(), 'g', -1, 64)}}
	if r.P(0.25) {
		t.Params["cli"] = "1"
	}
	if annoJSON != "" {
		t.Params["anno"] = annoJSON // the feature table, so that aa: rows can be placed on the genome too
	}
	n := 4
	if tier == "thorough" {
		n = 10
	}
	t.Runs = append([]RunCfg{genRunCfg(r)}, genRunCfgs(r, n)...)
	if len(c.Files["query"]) > 50000 {
		wideRuns(t.Runs)
	}
	return t
}

func mutPos(m string) (int, bool) {
	switch {
	case strings.HasPrefix(m, "nuc:"):
		s := m[4:]
		if len(s) < 3 {
			return 0, false
		}
		p, err := strconv.Atoi(s[1 : len(s)-1])
		return p, err == nil
	case strings.HasPrefix(m, "del:"), strings.HasPrefix(m, "ins:"):
		f := strings.Split(m, ":")
		if len(f) != 3 {
			return 0, false
		}
		p, err := strconv.Atoi(f[1])
		return p, err == nil
	case strings.HasPrefix(m, "aa:"):
		return 0, false
	}
	// snps format: A123T
	if len(m) >= 3 {
		p, err := strconv.Atoi(m[1 : len(m)-1])
		return p, err == nil
	}
	return 0, false
}

func checkC13(t *Trial, ctx *Ctx) *Failure {
	c := t.Case
	c.Opts.Aggregate = false
	per := ctx.Run(t, 0, &c)
	if per.Out.Kind != simrt.Returned || per.Err != nil {
		ctx.Discard("per-sequence mode did not succeed: " + firstLine(per.Describe()))
		return nil
	}
	lines := strings.Split(strings.TrimSuffix(string(per.Stdout), "\n"), "\n")
	rows := lines[1:]
	n := len(rows)
	if n == 0 {
		ctx.Discard("no per-sequence rows")
		return nil
	}
	count := map[string]int{}
	shared := false
	for _, row := range rows {
		i := strings.IndexByte(row, ',')
		if i < 0 {
			return &Failure{Class: "C13/per-sequence-row-malformed{" + t.Kind + "}", Detail: row}
		}
		seen := map[string]bool{}
		if row[i+1:] == "" {
			continue
		}
		for _, m := range strings.Split(row[i+1:], "|") {
			if !seen[m] {
				seen[m] = true
				count[m]++
				if count[m] > 1 {
					shared = true
				}
			}
		}
	}
	// threshold
	freqs := []float64{}
	for _, k := range count {
		freqs = append(freqs, float64(k)/float64(n))
	}
	sort.Float64s(freqs)
	mode, _ := strconv.Atoi(t.Params["thr_mode"])
	u, _ := strconv.ParseFloat(t.Params["thr_u"], 64)
	thr := 0.0
	switch {
	case mode == 1 && len(freqs) > 0:
		thr = freqs[int(u*float64(len(freqs)))%len(freqs)] // exactly an occurring frequency
	case mode == 2 && len(freqs) > 0:
		f := freqs[int(u*float64(len(freqs)))%len(freqs)]
		thr = f + 1e-7 // just above an occurring frequency
	case mode == 3:
		thr = 1
	case mode == 4:
		thr = u
	}
	var want []string
	for m, k := range count {
		f := float64(k) / float64(n)
		if f >= thr {
			want = append(want, m+","+strconv.FormatFloat(f, 'f', 9, 64))
		}
	}
	sort.Strings(want)
	if n >= 2 && len(count) >= 2 && shared {
		ctx.Nontrivial()
	}
	header := "mutation,frequency"
	if t.Kind == "snps" {
		header = "SNP,frequency"
	}
	for i := 1; i < len(t.Runs); i++ {
		a := t.Case
		a.Opts.Aggregate = true
		a.Opts.Threshold = thr
		ea := &a
		if t.Params["cli"] == "1" && i%2 == 1 {
			// through the real command line: how --aggregate and --threshold reach the library
			if cc, ok := cliCase(&a); ok {
				ea = cc
				ctx.Probe("aggregate_through_command_line", 1)
			}
		}
		res := ctx.Run(t, i, ea)
		if res.Out.Kind != simrt.Returned || res.Err != nil {
			t.Runs = []RunCfg{t.Runs[0], t.Runs[i]}
			return &Failure{Class: fmt.Sprintf("C13/aggregate-failed{%s}", t.Kind), Detail: "per-sequence mode succeeded but --aggregate did not: " + res.Describe()}
		}
		al := strings.Split(strings.TrimSuffix(string(res.Stdout), "\n"), "\n")
		got := append([]string(nil), al[1:]...)
		sort.Strings(got)
		fail := func(what, detail string) *Failure {
			t.Runs = []RunCfg{t.Runs[0], t.Runs[i]}
			return &Failure{Class: fmt.Sprintf("C13/%s{%s}", what, t.Kind), Detail: fmt.Sprintf("threshold %v, %d sequences\n%s\n--- per-sequence output:\n%s--- aggregate output:\n%s", thr, n, detail, per.Stdout, res.Stdout)}
		}
		if al[0] != header {
			return fail("header", "unexpected header "+al[0])
		}
		if strings.Join(got, "\n") != strings.Join(want, "\n") {
			return fail("frequencies-differ", fmt.Sprintf("expected (sorted):\n%s\ngot (sorted):\n%s", strings.Join(want, "\n"), strings.Join(got, "\n")))
		}
		var an Anno
		hasAnno := t.Params["anno"] != ""
		if hasAnno {
			json.Unmarshal([]byte(t.Params["anno"]), &an)
		}
		last := -1
		for _, l := range al[1:] {
			m := l[:strings.LastIndexByte(l, ',')]
			p, ok := mutPos(m)
			if !ok && hasAnno {
				// an aa: row may be placed at any coordinate of its codon (the statement says "genomic position",
				// not which base of the codon): it only has to fit between its neighbours
				if a, okA := aaPos(m, an); okA {
					lo, hi := a, a
					if b := a + 2*featStrand(m, an); b < lo {
						lo = b
					} else if b > hi {
						hi = b
					}
					ctx.Probe("aa_row_position_checked", 1)
					if hi < last {
						return fail("not-ordered-by-position", "row "+l+" (codon at "+strconv.Itoa(lo)+".."+strconv.Itoa(hi)+") follows a row at position "+strconv.Itoa(last))
					}
					if lo > last {
						last = lo
					}
				}
				continue
			}
			if ok {
				if p < last {
					return fail("not-ordered-by-position", "row "+l+" follows a row at position "+strconv.Itoa(last))
				}
				last = p
			}
		}
	}
	return nil
}

// featStrand is the strand (+1/-1) of the feature an aa: record names (0 if unknown).
func featStrand(m string, an Anno) int {
	f := strings.SplitN(m, ":", 3)
	if len(f) != 3 {
		return 0
	}
	for _, ft := range an.Feats {
		if ft.Name == f[1] || (ft.Name == "" && "u"+ft.ID == f[1]) {
			return ft.Strand
		}
	}
	return 0
}
