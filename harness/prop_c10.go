package main

import (
	"fmt"
	"strconv"
	"strings"

	"verif/simrt"
)

// C10 — updown list is a lossless summary of each sequence relative to the reference.
//
// Oracle: (1) executable reference model of the row; (2) independent reconstruction: the
// sequence rebuilt from the printed row and the reference equals the input up to the identity
// of non-A/C/G/T symbols. Simulation decides row order / exactly-once with NumCPU workers and
// NumCPU+50 buffers (many-record mode reaches the "sender blocked on a full buffer" path).

func init() {
	register(&Prop{
		ID: "C10", Level: "exploration", Quick: 80000, Thorough: 5000000,
		Rule:          "trial = (reference, alignment) with ambiguity runs at either end, adjacent runs separated by one base, all-ambiguous rows, every symbol profile and FASTA layout; 1..8 records or (10%) 60..150 tiny records; 3 seeded schedules per trial with NumCPU in {1..16}; non-trivial = some row has both a SNP and an ambiguity run, and (>= 2 rows arrived out of order at the writer in some run, or a run boundary case occurred: run at column 1, run at the last column, length-1 run, two runs separated by one base); distinct = distinct inputs",
		ShrinkColumns: true,
		Gen:           genC10,
		Check:         checkC10,
		Required:      []string{"run_at_first_column", "run_at_last_column", "run_length_one", "runs_separated_by_one_base", "all_ambiguous_row"},
		Expected:      []string{"out_of_order_arrival", "sender_blocked_on_full_buffer"},
	})
}

func listModelRow(ref, name, seq string) (row string, boundary map[string]bool) {
	R, S := upper(ref), upper(seq)
	boundary = map[string]bool{}
	var snps, ambs []string
	ambCount := 0
	prevEnd := -10
	for j := 0; j < len(S); {
		if isACGT(S[j]) {
			a, _ := baseSet(R[j], false)
			b, _ := baseSet(S[j], false)
			if a&b == 0 {
				snps = append(snps, fmt.Sprintf("%c%d%c", R[j], j+1, S[j]))
			}
			j++
			continue
		}
		k := j
		for k < len(S) && !isACGT(S[k]) {
			k++
		}
		// run j..k-1 (0-based) = j+1..k (1-based inclusive)
		if k-j == 1 {
			ambs = append(ambs, strconv.Itoa(j+1))
			boundary["run_length_one"] = true
		} else {
			ambs = append(ambs, fmt.Sprintf("%d-%d", j+1, k))
		}
		if j == 0 {
			boundary["run_at_first_column"] = true
		}
		if k == len(S) {
			boundary["run_at_last_column"] = true
		}
		if j-prevEnd == 1 {
			boundary["runs_separated_by_one_base"] = true
		}
		if j == 0 && k == len(S) {
			boundary["all_ambiguous_row"] = true
		}
		prevEnd = k
		ambCount += k - j
		j = k
	}
	return fmt.Sprintf("%s,%s,%s,%d,%d", name, strings.Join(snps, "|"), strings.Join(ambs, "|"), len(snps), ambCount), boundary
}

// reconstruct rebuilds the sequence pattern from a printed row: '?' at ambiguous columns.
func reconstruct(ref, row string) (string, error) {
	f := strings.Split(row, ",")
	if len(f) != 5 {
		return "", fmt.Errorf("row does not have 5 fields: %q", row)
	}
	b := []byte(upper(ref))
	if f[1] != "" {
		for _, s := range strings.Split(f[1], "|") {
			if len(s) < 3 {
				return "", fmt.Errorf("bad SNP %q", s)
			}
			p, err := strconv.Atoi(s[1 : len(s)-1])
			if err != nil || p < 1 || p > len(b) {
				return "", fmt.Errorf("bad SNP position %q", s)
			}
			b[p-1] = s[len(s)-1]
		}
	}
	if f[2] != "" {
		for _, a := range strings.Split(f[2], "|") {
			lo, hi := 0, 0
			if i := strings.IndexByte(a, '-'); i >= 0 {
				lo, _ = strconv.Atoi(a[:i])
				hi, _ = strconv.Atoi(a[i+1:])
			} else {
				lo, _ = strconv.Atoi(a)
				hi = lo
			}
			if lo < 1 || hi > len(b) || lo > hi {
				return "", fmt.Errorf("bad ambiguity range %q", a)
			}
			for p := lo; p <= hi; p++ {
				b[p-1] = '?'
			}
		}
	}
	return string(b), nil
}

func genC10(r *Rand, tier string, ord int) *Trial {
	many := r.P(0.1)
	w := genWidth(r, many)
	n := r.Range(1, 8)
	kind := "generated"
	if many {
		n = r.Range(60, 150)
		if r.P(0.35) {
			n = r.Range(49, 70) // right at the NumCPU+50 channel capacities
		}
		kind = "generated-many"
		if r.P(0.2) {
			n, kind = r.Range(300, 600), "generated-many-hundreds"
		}
	}
	wide := !many && r.P(0.004)
	if wide { // widths around powers of two (gen.go, scale), runs of ambiguity at the edges of 64/256/1024-column blocks
		w, n, kind = scaleWidthUpTo(r, 13), r.Range(1, 4), "generated-wide"
		if r.P(0.15) {
			w = scaleWidth(r)
		}
	}
	ref := genRefSeq(r, w)
	if r.P(0.15) && !wide {
		ref = mutate(r, ref, profFull, 0)
	}
	var q Aln
	if wide {
		q = genAln(r, ref, alnSpec{W: w, N: n, Prof: profACGT, SNP: 0.004, Prefix: "q"})
		for i := range q.Seqs {
			q.Seqs[i] = tailSNPs(r, ref, blockEdgeRuns(r, q.Seqs[i]))
			if r.P(0.5) {
				q.Seqs[i] = mutate(r, q.Seqs[i], profTracts, 0)
			}
		}
	} else {
		q = genAln(r, ref, alnSpec{W: w, N: n, Prof: -1, SNP: 0.15, Prefix: "q", AllN: 0.08})
	}
	if !many && !wide {
		for i := range q.Seqs {
			if r.P(0.5) {
				q.Seqs[i] = mutate(r, q.Seqs[i], profTracts, 0)
			}
			if r.P(0.2) && w >= 3 { // two runs separated by one base
				p := r.Intn(w - 2)
				b := []byte(q.Seqs[i])
				b[p], b[p+1], b[p+2] = 'N', "ACGT"[r.Intn(4)], '-'
				q.Seqs[i] = string(b)
			}
		}
	}
	lay := genLayout(r)
	if wide {
		lay = wideLayout(r)
	}
	t := &Trial{Kind: kind, Case: Case{Cmd: "updownlist", Files: map[string]string{"ref": ">ref\n" + ref + "\n", "query": q.FASTA(lay)}}, Params: map[string]string{}}
	if !wide && !many && r.P(0.1) {
		// a program that lists several alignments in turn: an earlier call with another (wider) reference
		wr := genRefSeq(r, len(ref)+r.Range(0, 9))
		wq := genAln(r, wr, alnSpec{W: len(wr), N: r.Range(1, 4), Prof: profACGT, SNP: 0.2, Prefix: "w"})
		t.Case.Warm = &Case{Cmd: "updownlist", Files: map[string]string{"ref": ">other\n" + wr + "\n", "query": wq.FASTA(genLayout(r))}}
	}
	t.Runs = genRunCfgs(r, 3)
	if wide {
		wideRuns(t.Runs)
	}
	if many {
		scaleHorizon(t.Runs, 8*n)
		if r.P(0.5) {
			t.Runs[0].Strat = simrt.Strategy{Kind: simrt.StratPCT, Depth: r.Range(1, 3), Horizon: 5 * n, SelectRand: true}
			t.Runs[0].NumCPU = r.PickInt(2, 3, 4, 8)
		}
	}
	return t
}

func checkC10(t *Trial, ctx *Ctx) *Failure {
	refRecs, _ := parseFasta(t.Case.Files["ref"])
	ref := strings.Join(refRecs[0].seq, "")
	qRecs, _ := parseFasta(t.Case.Files["query"])
	var sb strings.Builder
	sb.WriteString("query,SNPs,ambiguities,SNPcount,ambcount\n")
	both := false
	bnd := map[string]bool{}
	for _, q := range qRecs {
		name := strings.Fields(q.head[1:])[0]
		row, b := listModelRow(ref, name, strings.Join(q.seq, ""))
		sb.WriteString(row + "\n")
		f := strings.Split(row, ",")
		if f[1] != "" && f[2] != "" {
			both = true
		}
		for k := range b {
			bnd[k] = true
		}
	}
	want := sb.String()
	ooo := false
	for i := range t.Runs {
		res := ctx.Run(t, i, &t.Case)
		if res.Out.Kind != simrt.Returned || res.Err != nil {
			t.Runs = t.Runs[i : i+1]
			return &Failure{Class: "C10/valid-input-not-processed{" + res.Out.Signature() + "}", Detail: res.Describe()}
		}
		if res.Tap != nil && res.Tap.outOfOrder > 0 {
			ooo = true
		}
		got := string(res.Stdout)
		if got != want {
			t.Runs = t.Runs[i : i+1]
			cls := "content"
			if lineMultiset(got) == lineMultiset(want) {
				cls = "row-order"
			} else if strings.Count(got, "\n") != strings.Count(want, "\n") {
				cls = "row-count"
			}
			return &Failure{Class: "C10/" + cls, Detail: fmt.Sprintf("%s\n--- model:\n%s--- updown list:\n%s", firstDiff(want, got), want, got)}
		}
		// independent reconstruction from the printed rows
		rows := strings.Split(strings.TrimSuffix(got, "\n"), "\n")[1:]
		for k, row := range rows {
			rec, err := reconstruct(ref, row)
			if err != nil {
				return &Failure{Class: "C10/row-unparseable", Detail: err.Error()}
			}
			in := upper(strings.Join(qRecs[k].seq, ""))
			R := upper(ref)
			for j := 0; j < len(in); j++ {
				ok := true
				switch {
				case !isACGT(in[j]):
					ok = rec[j] == '?'
				case isACGT(R[j]) || rec[j] != R[j]:
					ok = rec[j] == in[j]
				default: // ambiguous reference symbol left in place: the base must be one it denotes
					a, _ := baseSet(R[j], false)
					b, _ := baseSet(in[j], false)
					ok = a&b != 0
				}
				if !ok {
					t.Runs = t.Runs[i : i+1]
					return &Failure{Class: "C10/not-lossless", Detail: fmt.Sprintf("row %q does not reconstruct column %d of %s (%c): got %c", row, j+1, in, in[j], rec[j])}
				}
			}
		}
	}
	for k := range bnd {
		ctx.Probe(k, 1)
	}
	if both && (ooo || len(bnd) > 0) {
		ctx.Nontrivial()
	}
	return nil
}
