package main

import (
	"fmt"
	"sort"
	"strings"

	"verif/simrt"
)

// C02 — sam toPairAlign reconstructs each pairwise alignment losslessly.

func init() {
	register(&Prop{
		ID: "C02", Level: "exploration", Quick: 60000, Thorough: 4000000,
		Rule:     "trial = generated SAM + its reference; queries with 1..3 non-conflicting records (disjoint, or overlapping without an insertion anchor inside another record), any number/placement of insertions incl. at record ends, D/N/S/H/P/=/X; x --skip-insertions x --omit-reference x --start/--end x --wrap x stdout/directory; 3 seeded schedules with --threads in {1,2,3,4,8}; oracle = executable reference model of the pair (and, with --skip-insertions, the toMultiAlign --pad row); outputs are matched per query name; non-trivial = some query has an insertion or a deletion, and >= 2 queries; distinct = distinct (input, options)",
		Gen:      genC02,
		Check:    checkC02,
		Required: []string{"query_with_insertion", "multi_record_query", "insertion_at_record_end"},
		Expected: []string{"out_of_order_arrival"},
	})
}

type pairRows struct {
	name     string
	ref, qry string
	hasIns   bool
	hasDel   bool
	insAtEnd bool
	multi    bool
	// an insertion carried (identically) by two overlapping records of the query
	sharedIns bool
}

// pairModel builds the expected (reference row, query row) of one query; ok=false = outside the domain.
func pairModel(g samGroup, ref string) (pr pairRows, ok bool) {
	L := len(ref)
	row, any := projectRow(g, L)
	if row == nil || !any {
		return pr, false
	}
	for _, c := range row {
		if c.state == cellConflict {
			return pr, false
		}
	}
	ins := make([]string, L+1) // slot p: after p reference bases
	owner := make([]int, L+1)
	for i := range owner {
		owner[i] = -1
	}
	carriers := make([][]int, L+1) // the records that carry the insertion at slot p
	runRec := make([]int, L+1)     // 1 + the record whose run of I operations at slot p was taken last
	type span struct{ a, b int } // reference positions (1-based inclusive) a record spans, 0 if none
	spans := make([]span, len(g.recs))
	for ri, rec := range g.recs {
		p := rec.Pos - 1 // reference bases consumed so far
		qi := 0
		first, last := 0, 0
		nops := len(rec.Cigar)
		for oi, op := range rec.Cigar {
			switch op.Op {
			case 'M', '=', 'X', 'D', 'N':
				if first == 0 {
					first = p + 1
				}
				p += op.Len
				last = p
				if op.Op == 'M' || op.Op == '=' || op.Op == 'X' {
					qi += op.Len
				}
				if op.Op == 'D' {
					pr.hasDel = true
				}
			case 'I':
				if qi+op.Len > len(rec.Seq) || p > L {
					return pr, false
				}
				if runRec[p] == ri+1 {
					qi += op.Len // a later I operation of a run this record has already contributed whole
					break
				}
				runRec[p] = ri + 1
				s := rec.Seq[qi : qi+op.Len]
				// a record may write its insertion at p as several I operations (with padding between them)
				for oj := oi + 1; oj < nops; oj++ {
					if o2 := rec.Cigar[oj]; o2.Op == 'I' {
						if qi+len(s)+o2.Len > len(rec.Seq) {
							return pr, false
						}
						s += rec.Seq[qi+len(s) : qi+len(s)+o2.Len]
					} else if o2.Op != 'P' {
						break
					}
				}
				if owner[p] >= 0 {
					if ins[p] != s {
						return pr, false // two different insertions at one anchor: outside "non-conflicting"
					}
					// the same insertion carried by a second, overlapping record: still one insertion of the query
					pr.sharedIns = true
					carriers[p] = append(carriers[p], ri)
					qi += op.Len
					break
				}
				ins[p] = s
				owner[p] = ri
				carriers[p] = append(carriers[p], ri)
				qi += op.Len
				pr.hasIns = true
				// is this the last reference-consuming point of the record?
				rest := false
				for _, o2 := range rec.Cigar[oi+1 : nops] {
					if o2.Op == 'M' || o2.Op == '=' || o2.Op == 'X' || o2.Op == 'D' || o2.Op == 'N' {
						rest = true
					}
				}
				if !rest {
					pr.insAtEnd = true
				}
			case 'S':
				qi += op.Len
			}
		}
		spans[ri] = span{first, last}
	}
	// every record that spans across an insertion slot must carry that same insertion (else the records conflict)
	for p, ri := range owner {
		if ri < 0 {
			continue
		}
		for rj, sp := range spans {
			carries := false
			for _, c := range carriers[p] {
				if c == rj {
					carries = true
				}
			}
			if !carries && sp.a != 0 && sp.a <= p && sp.b >= p+1 {
				return pr, false
			}
		}
	}
	var rb, qb strings.Builder
	emitIns := func(p int) {
		if ins[p] != "" {
			rb.WriteString(strings.Repeat("-", len(ins[p])))
			qb.WriteString(ins[p])
		}
	}
	emitIns(0)
	for p := 1; p <= L; p++ {
		rb.WriteByte(ref[p-1])
		switch row[p-1].state {
		case cellBase:
			qb.WriteByte(row[p-1].base)
		case cellDel:
			qb.WriteByte('-')
		default:
			qb.WriteByte('N')
		}
		emitIns(p)
	}
	pr.name, pr.ref, pr.qry, pr.multi = g.name, rb.String(), qb.String(), len(g.recs) > 1
	return pr, true
}

// cutPair trims a pair to reference bases s..e (1-based inclusive) through the gapped reference row.
func cutPair(ref, qry string, s, e int) (string, string) {
	cs, ce, nb := -1, -1, 0
	for j := 0; j < len(ref); j++ {
		if ref[j] != '-' {
			nb++
			if nb == s && cs < 0 {
				cs = j
			}
			if nb == e {
				ce = j
			}
		}
	}
	return ref[cs : ce+1], qry[cs : ce+1]
}

func genC02(r *Rand, tier string, ord int) *Trial {
	many := r.P(0.06)
	sp := samSpec{L: r.Range(4, 50), Queries: r.Range(1, 7), MaxRecs: 3, Overlap: r.P(0.3), Ins: 0.08, Del: 0.06, Skip: 0.03, Junk: 0.12, Clip: 0.25, ShortTail: r.P(0.5), InsDisjoint: true, EdgeIns: 0.08}
	if sp.Overlap && r.P(0.3) {
		sp.InsDisjoint = false // overlapping records may both carry the (same) insertion of the region they share
	}
	kind := "generated"
	if many {
		sp.L, sp.Queries, sp.MaxRecs, kind = r.Range(4, 12), r.Range(60, 120), 1, "generated-many"
	}
	if r.P(0.35) {
		sp.MaxRecs = 1
	}
	if tier == "thorough" && !many && r.P(0.05) {
		sp.L = r.Range(51, 400) // deeper bound on the reference length in the thorough tier
	}
	long := !many && r.P(0.002)
	if long {
		sp.Ins, sp.Queries, kind = 0.15, r.Range(1, 3), "generated-long-insertion"
	}
	sc := genSam(r, sp)
	if long {
		// insertions of about 2^8, 2^12 or 2^16 bases (one, or two that add up): gen.go, scale
		k := uint(r.PickInt(8, 12, 16, 16, 16))
		n := (1 << k) + r.Range(-2, 8)
		if r.P(0.3) {
			inflateInsertion(r, sc, n*4/7)
			n = n*3/7 + 5
		}
		if !inflateInsertion(r, sc, n) {
			kind = "generated"
		}
	}
	o := Opts{Wrap: -1, Start: -1, End: -1, Threads: 1, OutDir: r.Pick("stdout", "stdout", "pairs")}
	o.OmitIns = r.P(0.3)
	o.OmitRef = r.P(0.25)
	if r.P(0.35) || long && r.P(0.7) {
		o.Start, o.End = genWindow(r, sp.L)
		switch r.Intn(4) {
		case 0:
			o.Start = -1
		case 1:
			o.End = -1
		}
	}
	if r.P(0.3) {
		o.Wrap = r.PickInt(1, 3, 7, 60)
		if long && o.Wrap < 7 {
			o.Wrap = 60
		}
	}
	t := &Trial{Kind: kind, Case: Case{Cmd: "topa", Files: map[string]string{"sam": sc.Text(), "ref": ">ref\n" + sc.RefSeq + "\n"}, Opts: o}, Params: map[string]string{}}
	t.Runs = genRunCfgs(r, 5) // 0..2: model comparison; 3,4: the toMultiAlign --pad relation (with --skip-insertions)
	if long {
		wideRuns(t.Runs)
	}
	return t
}

// c02Expected returns, per query name, the expected text block; and the class of region the case is in.
func c02Expected(sc *SamCase, o Opts) (map[string]string, []pairRows, bool) {
	L := len(sc.RefSeq)
	out := map[string]string{}
	var prs []pairRows
	for _, g := range samGroups(sc) {
		pr, ok := pairModel(g, sc.RefSeq)
		if !ok {
			return nil, nil, false
		}
		if _, dup := out[g.name]; dup {
			return nil, nil, false // the same name in two separate blocks: per-name matching would be ambiguous
		}
		refRow, qRow := pr.ref, pr.qry
		if o.OmitIns {
			row, _ := projectRow(g, L)
			refRow, qRow = sc.RefSeq, renderRow(row, true)
		}
		if o.Start > 0 || o.End > 0 {
			s, e := o.Start, o.End
			if s <= 0 {
				s = 1
			}
			if e <= 0 {
				e = L
			}
			refRow, qRow = cutPair(refRow, qRow, s, e)
		}
		var sb strings.Builder
		if !o.OmitRef {
			sb.WriteString(">" + sc.RefName + "\n" + wrapLines(refRow, o.Wrap))
		}
		sb.WriteString(">" + g.name + "\n" + wrapLines(qRow, o.Wrap))
		out[g.name] = sb.String()
		prs = append(prs, pr)
	}
	return out, prs, true
}

// splitPairsByName cuts toPairAlign's stdout into per-query blocks keyed by the query name.
func splitPairsByName(text string, omitRef bool, refName string) (map[string]string, bool) {
	out := map[string]string{}
	lines := strings.SplitAfter(text, "\n")
	var hdrs []int
	for i, l := range lines {
		if strings.HasPrefix(l, ">") {
			hdrs = append(hdrs, i)
		}
	}
	step := 2
	if omitRef {
		step = 1
	}
	if len(hdrs)%step != 0 {
		return nil, false
	}
	for k := 0; k < len(hdrs); k += step {
		end := len(lines)
		if k+step < len(hdrs) {
			end = hdrs[k+step]
		}
		qh := lines[hdrs[k+step-1]]
		name := strings.TrimSuffix(qh[1:], "\n")
		if !omitRef && strings.TrimSuffix(lines[hdrs[k]][1:], "\n") != refName {
			return nil, false
		}
		if _, dup := out[name]; dup {
			return nil, false
		}
		out[name] = strings.Join(lines[hdrs[k]:end], "")
	}
	return out, true
}

func checkC02(t *Trial, ctx *Ctx) *Failure {
	sc := *parseSamText(t.Case.Files["sam"])
	if rr, _ := parseFasta(t.Case.Files["ref"]); len(rr) == 1 {
		sc.RefSeq = strings.Join(rr[0].seq, "")
	}
	o := t.Case.Opts
	want, prs, ok := c02Expected(&sc, o)
	if !ok {
		ctx.Discard("outside the domain: conflicting records (bases, or an insertion that an overlapping record does not carry), or query without aligned base")
		return nil
	}
	region := "single-record"
	interesting := false
	for _, pr := range prs {
		if pr.hasIns {
			ctx.Probe("query_with_insertion", 1)
		}
		if pr.multi {
			ctx.Probe("multi_record_query", 1)
		}
		if pr.insAtEnd {
			ctx.Probe("insertion_at_record_end", 1)
		}
		if pr.sharedIns {
			ctx.Probe("insertion_shared_by_overlapping_records", 1)
		}
		if pr.sharedIns && !o.OmitIns {
			region = "insertion-shared-by-overlapping-records"
		} else if region == "insertion-shared-by-overlapping-records" {
		} else if pr.multi && pr.hasIns && !o.OmitIns {
			region = "multi-record-with-insertion"
		} else if pr.multi && region == "single-record" {
			region = "multi-record"
		}
		if pr.hasIns || pr.hasDel {
			interesting = true
		}
	}
	if o.OutDir != "stdout" {
		w2 := map[string]string{}
		for name, block := range want {
			w2[o.OutDir+"/"+strings.ReplaceAll(name, "/", "_")+".fasta"] = block
		}
		want = w2
	}
	nModel := len(t.Runs)
	if nModel > 3 {
		nModel = 3
	}
	for i := 0; i < nModel; i++ {
		res := ctx.Run(t, i, &t.Case)
		fail := func(what, detail string) *Failure {
			t.Runs = t.Runs[i : i+1]
			return &Failure{Class: fmt.Sprintf("C02/%s{%s}", what, region), Detail: fmt.Sprintf("options %+v\n%s\n--- SAM:\n%s--- toPairAlign (%s):\n%s", o, detail, t.Case.Files["sam"], res.Describe(), res.outputKey())}
		}
		if res.Out.Kind != simrt.Returned || res.Err != nil {
			return fail("valid-input-not-processed:"+res.Out.Signature(), "")
		}
		var got map[string]string
		if o.OutDir == "stdout" {
			var ok bool
			got, ok = splitPairsByName(string(res.Stdout), o.OmitRef, sc.RefName)
			if !ok {
				return fail("output-not-pairs", "stdout cannot be cut into (reference, query) record pairs")
			}
		} else {
			got = map[string]string{}
			for fn, content := range res.Files {
				got[fn] = string(content)
			}
		}
		names := make([]string, 0, len(want))
		for n := range want {
			names = append(names, n)
		}
		sort.Strings(names)
		if len(got) != len(want) {
			return fail("query-count", fmt.Sprintf("expected %d queries, got %d", len(want), len(got)))
		}
		for _, n := range names {
			if got[n] != want[n] {
				return fail("pair-content", fmt.Sprintf("query %s\n--- model:\n%s--- got:\n%s", n, want[n], got[n]))
			}
		}
	}
	// the relation stated in the property, between two simulated runs of the real code: with
	// --skip-insertions the query rows are exactly the `sam toMultiAlign --pad` rows of the same SAM
	if o.OmitIns && len(t.Runs) >= 5 {
		tc := Case{Cmd: "toma", Files: map[string]string{"sam": t.Case.Files["sam"]}, Opts: Opts{Wrap: -1, Start: o.Start, End: o.End, Pad: true, Threads: 1}}
		pa := t.Case
		pa.Opts.OmitRef, pa.Opts.OutDir, pa.Opts.Wrap = true, "stdout", -1
		rt := ctx.Run(t, 3, &tc)
		rp := ctx.Run(t, 4, &pa)
		if rt.Out.Kind == simrt.Returned && rt.Err == nil && rp.Out.Kind == simrt.Returned && rp.Err == nil {
			// toMultiAlign --pad keeps the window's outside as N; toPairAlign cuts it away
			want := string(rt.Stdout)
			if o.Start > 0 || o.End > 0 {
				s, e := o.Start, o.End
				if s <= 0 {
					s = 1
				}
				if e <= 0 {
					e = len(sc.RefSeq)
				}
				var sb strings.Builder
				for _, rec := range parseOutFasta(want) {
					sb.WriteString(">" + rec.name + "\n" + rec.seq[s-1:e] + "\n")
				}
				want = sb.String()
			}
			if string(rp.Stdout) != want {
				return &Failure{Class: "C02/skip-insertions-differs-from-toMultiAlign-pad{" + region + "}", Detail: fmt.Sprintf("--- SAM:\n%s--- toMultiAlign --pad:\n%s--- toPairAlign --skip-insertions --omit-reference:\n%s", t.Case.Files["sam"], want, rp.Stdout)}
			}
		}
	}
	if interesting && len(prs) >= 2 {
		ctx.Nontrivial()
	}
	return nil
}
