package main

import (
	"flag"
	"fmt"
	"os"
	"os/exec"
	"sort"
	"strings"
)

// Self-tests of the simulator itself (DESIGN.md §10):
//   digest     one process: run the first n trials of a property and print one digest line per trial
//   diffcases  one process: run generated valid cases of every command form at threads=1 under the
//              baseline schedule (or, in a realtree build, on the untransformed tree) and print output hashes
//   selftest   the driver: determinism (same digests across processes and GOMAXPROCS values) and
//              sim-vs-real agreement; the repository's own suite on the transformed tree is run by check.sh

func digestCmd(args []string) {
	fs := flag.NewFlagSet("digest", flag.ExitOnError)
	prop := fs.String("prop", "", "")
	n := fs.Int("n", 200, "")
	seed := fs.Uint64("seed", 1, "")
	fs.Parse(args)
	p := props[*prop]
	if p == nil {
		fatal("unknown property", *prop)
	}
	for ord := 0; ord < *n; ord++ {
		sub := subSeed(*seed, p.ID, ord)
		t := p.Gen(NewRand(sub), "quick", ord)
		if t == nil {
			fmt.Printf("%s %d nil\n", p.ID, ord)
			continue
		}
		t.Prop = p.ID
		ctx := &Ctx{St: newStats()}
		f, inc := checkTrial(p, t, ctx)
		cls := "-"
		if f != nil {
			cls = f.Class
		}
		if inc != nil {
			cls = "inconclusive"
		}
		fmt.Printf("%s %d %016x %d %s\n", p.ID, ord, ctx.Digest, ctx.St.Evaluations, cls)
	}
}

var diffForms = []string{"toma", "samvariants", "variants", "snps", "snps-agg", "closest", "closestn", "updownlist", "topranking"}

func diffCasesCmd(args []string) {
	fs := flag.NewFlagSet("diffcases", flag.ExitOnError)
	n := fs.Int("n", 100, "")
	seed := fs.Uint64("seed", 1, "")
	fs.Parse(args)
	tapEnabled = false
	for i := 0; i < *n; i++ {
		for _, form := range diffForms {
			r := NewRand(mix(mix(*seed, hashString(form)), uint64(i)))
			c := genCmdCase(r, form, caseSize{many: i%10 == 9})
			rc := P0()
			rc.Explicit = true
			res := Exec(c, &rc)
			fmt.Printf("%s %d %016x %s err=%q out=%016x len=%d\n", form, i, caseHash(c), res.Out.Kind, res.ErrString(), hashBytes(0, res.Stdout), len(res.Stdout))
		}
	}
}

func runLines(env []string, bin string, args ...string) ([]string, error) {
	c := exec.Command(bin, args...)
	c.Env = append(os.Environ(), env...)
	c.Stderr = nil
	out, err := c.Output()
	return strings.Split(strings.TrimSpace(string(out)), "\n"), err
}

func selftest(args []string) {
	fs := flag.NewFlagSet("selftest", flag.ExitOnError)
	realBin := fs.String("realbin", "", "harness built with -tags realtree against the untransformed copy")
	n := fs.Int("n", 150, "trials per property")
	fs.String("verif", "", "")
	fs.String("scratch", "", "")
	fs.Parse(args)
	self, _ := os.Executable()
	ok := true
	ids := []string{}
	for id := range props {
		ids = append(ids, id)
	}
	sort.Strings(ids)
	// 1. determinism: every property's first n trials, 6 fresh processes (GOMAXPROCS 1, 4, 16 twice each)
	type job struct {
		id  string
		gmp string
		out []string
		err error
	}
	var jobs []*job
	done := make(chan *job)
	for _, id := range ids {
		for _, g := range []string{"1", "4", "16", "1", "4", "16"} {
			j := &job{id: id, gmp: g}
			jobs = append(jobs, j)
			go func(j *job) {
				j.out, j.err = runLines([]string{"GOMAXPROCS=" + j.gmp}, self, "digest", "-prop", j.id, "-n", fmt.Sprint(*n))
				done <- j
			}(j)
		}
	}
	for range jobs {
		<-done
	}
	procs, lines := 0, 0
	byProp := map[string][]*job{}
	for _, j := range jobs {
		byProp[j.id] = append(byProp[j.id], j)
	}
	for _, id := range ids {
		js := byProp[id]
		for _, j := range js {
			procs++
			if j.err != nil {
				fmt.Printf("selftest: digest process for %s failed: %v\n", id, j.err)
				ok = false
				continue
			}
			lines += len(j.out)
			if strings.Join(j.out, "\n") != strings.Join(js[0].out, "\n") {
				ok = false
				for k := range j.out {
					if k >= len(js[0].out) || j.out[k] != js[0].out[k] {
						fmt.Printf("selftest: NONDETERMINISM in %s (GOMAXPROCS %s vs %s): %q vs %q\n", id, js[0].gmp, j.gmp, js[0].out[k], j.out[k])
						break
					}
				}
			}
		}
	}
	fmt.Printf("selftest determinism: %d properties x %d trials, %d processes (GOMAXPROCS 1/4/16 twice), %d digest lines compared: %v\n", len(ids), *n, procs, lines, ok)
	// 2. sim vs real on valid inputs at threads=1
	if *realBin != "" {
		a, err1 := runLines(nil, self, "diffcases", "-n", "120")
		b, err2 := runLines(nil, *realBin, "diffcases", "-n", "120")
		if err1 != nil || err2 != nil {
			fmt.Println("selftest: diffcases failed:", err1, err2)
			ok = false
		}
		diff := 0
		for i := range a {
			if i >= len(b) || a[i] != b[i] {
				if diff < 5 {
					x := ""
					if i < len(b) {
						x = b[i]
					}
					fmt.Printf("selftest: SIM-VS-REAL DIFFERENCE:\n  sim : %s\n  real: %s\n", a[i], x)
				}
				diff++
			}
		}
		if diff > 0 || len(a) != len(b) {
			ok = false
		}
		fmt.Printf("selftest sim-vs-real: %d cases over %d command forms, transformed tree under the simulator vs untransformed tree on the Go runtime: %d differences\n", len(a), len(diffForms), diff)
	}
	if !ok {
		fmt.Println("SELFTEST FAILED")
		os.Exit(2)
	}
	fmt.Println("SELFTEST OK")
}
