package main

func selftest(args []string) {}
