package main

import "strings"

// IUPAC base sets as bit masks A=1 C=2 G=4 T=8 (written from the IUPAC table, not from gofasta's encoding).
func baseSet(sym byte, hardGaps bool) (uint8, bool) {
	switch sym {
	case 'A', 'a':
		return 1, true
	case 'C', 'c':
		return 2, true
	case 'G', 'g':
		return 4, true
	case 'T', 't':
		return 8, true
	case 'R', 'r':
		return 1 | 4, true
	case 'Y', 'y':
		return 2 | 8, true
	case 'S', 's':
		return 2 | 4, true
	case 'W', 'w':
		return 1 | 8, true
	case 'K', 'k':
		return 4 | 8, true
	case 'M', 'm':
		return 1 | 2, true
	case 'B', 'b':
		return 2 | 4 | 8, true
	case 'D', 'd':
		return 1 | 4 | 8, true
	case 'H', 'h':
		return 1 | 2 | 8, true
	case 'V', 'v':
		return 1 | 2 | 4, true
	case 'N', 'n', '?':
		return 15, true
	case '-':
		if hardGaps {
			return 0, true
		}
		return 15, true
	}
	return 0, false
}

func isACGT(b byte) bool { return b == 'A' || b == 'C' || b == 'G' || b == 'T' }

func upper(s string) string { return strings.ToUpper(s) }
