package main

import (
	"encoding/binary"
	"encoding/json"
	"flag"
	"fmt"
	"os"
	"os/exec"
	"path/filepath"
	"sort"
	"strconv"
	"strings"
	"time"

	"verif/simrt"
)

// exit codes: 0 held, 1 violation (with VIOLATION line), 2 inconclusive / harness trouble

type violationRec struct {
	Class    string `json:"class"`
	Detail   string `json:"detail"`
	Replay   string `json:"replay"`
	Count    int    `json:"count"`
	MinTries int    `json:"min_tries"`
}

type workerReport struct {
	Stats        *Stats         `json:"stats"`
	Violations   []violationRec `json:"violations"`
	Inconclusive []string       `json:"inconclusive"`
	Capped       bool           `json:"capped"`
	WallS        float64        `json:"wall_s"`
}

type knownFinding struct {
	Property string `json:"property"`
	Class    string `json:"class"`
	Status   string `json:"status"` // open | fixed
	What     string `json:"what"`
	Commit   string `json:"commit,omitempty"`
	Replay   string `json:"replay,omitempty"` // path relative to the verif dir
}

func loadKnown(verifDir string) []knownFinding {
	b, err := os.ReadFile(filepath.Join(verifDir, "known_findings.json"))
	if err != nil {
		return nil
	}
	var k struct {
		Findings []knownFinding `json:"findings"`
	}
	if err := json.Unmarshal(b, &k); err != nil {
		fmt.Fprintln(os.Stderr, "harness: known_findings.json:", err)
		os.Exit(2)
	}
	return k.Findings
}

func openClasses(known []knownFinding, prop string) map[string]bool {
	m := map[string]bool{}
	for _, k := range known {
		if k.Property == prop && k.Status == "open" {
			m[k.Class] = true
		}
	}
	return m
}

func subSeed(seed uint64, prop string, ord int) uint64 {
	return mix(mix(seed, hashString(prop)), uint64(ord)+1)
}

func trialsFor(p *Prop, tier string) int {
	n := p.Quick
	if tier == "thorough" {
		n = p.Thorough
	}
	if v := os.Getenv("VERIF_TRIALS"); v != "" {
		if k, err := strconv.Atoi(v); err == nil {
			n = k
		}
	}
	return n
}

func writeHashes(path string, sets ...map[uint64]bool) {
	f, err := os.Create(path)
	if err != nil {
		fatal(err)
	}
	defer f.Close()
	var buf [8]byte
	for _, m := range sets {
		binary.LittleEndian.PutUint64(buf[:], uint64(len(m)))
		f.Write(buf[:])
		keys := make([]uint64, 0, len(m))
		for k := range m {
			keys = append(keys, k)
		}
		sort.Slice(keys, func(i, j int) bool { return keys[i] < keys[j] })
		out := make([]byte, 8*len(keys))
		for i, k := range keys {
			binary.LittleEndian.PutUint64(out[8*i:], k)
		}
		f.Write(out)
	}
}

func readHashes(path string, sets ...map[uint64]bool) {
	b, err := os.ReadFile(path)
	if err != nil {
		fatal(err)
	}
	for _, m := range sets {
		n := int(binary.LittleEndian.Uint64(b))
		b = b[8:]
		for i := 0; i < n; i++ {
			addHash(m, binary.LittleEndian.Uint64(b[8*i:]))
		}
		b = b[8*n:]
	}
}

func fatal(a ...interface{}) {
	fmt.Fprintln(os.Stderr, append([]interface{}{"harness:"}, a...)...)
	os.Exit(2)
}

func sampleOf(t *Trial) json.RawMessage {
	c := cloneTrial(t)
	for k, v := range c.Case.Files {
		if len(v) > 400 {
			c.Case.Files[k] = v[:400] + fmt.Sprintf("...(%d bytes)", len(v))
		}
	}
	for i := range c.Runs {
		if len(c.Runs[i].Replay) > 40 {
			c.Runs[i].Replay = c.Runs[i].Replay[:40]
		}
		c.Runs[i].Arity = nil
	}
	if len(c.Runs) > 4 {
		c.Runs = c.Runs[:4]
	}
	b, _ := json.Marshal(c)
	return b
}

var watchdog *time.Timer

func armWatchdog(what string) { armWatchdogFor(what, 120*time.Second) }

func armWatchdogFor(what string, d time.Duration) {
	if watchdog != nil {
		watchdog.Stop()
	}
	watchdog = time.AfterFunc(d, func() {
		fmt.Fprintln(os.Stderr, "harness: WATCHDOG: a single trial exceeded", d, "wall clock:", what)
		os.Exit(2)
	})
}

func worker(args []string) {
	fs := flag.NewFlagSet("worker", flag.ExitOnError)
	prop := fs.String("prop", "", "")
	tier := fs.String("tier", "quick", "")
	seed := fs.Uint64("seed", 1, "")
	shard := fs.Int("shard", 0, "")
	nshards := fs.Int("nshards", 1, "")
	outDir := fs.String("out", "", "")
	verifDir := fs.String("verif", "/verif", "")
	fs.Parse(args)
	p := props[*prop]
	if p == nil {
		fatal("unknown property", *prop)
	}
	t0 := time.Now()
	known := openClasses(loadKnown(*verifDir), p.ID)
	st := newStats()
	ctx := &Ctx{St: st}
	rep := &workerReport{Stats: st}
	seen := map[string]*violationRec{}
	total := trialsFor(p, *tier)
	for ord := *shard; ord < total; ord += *nshards {
		sub := subSeed(*seed, p.ID, ord)
		r := NewRand(sub)
		t := p.Gen(r, *tier, ord)
		if t == nil {
			continue
		}
		t.Prop, t.Tier, t.Seed, t.Ordinal, t.SubSeed = p.ID, *tier, *seed, ord, sub
		armWatchdog(fmt.Sprintf("%s ord=%d", p.ID, ord))
		var sample json.RawMessage
		if len(st.Samples) < 2 {
			sample = sampleOf(t)
		}
		f, inc := checkTrial(p, t, ctx)
		st.Trials++
		st.Kinds[t.Kind]++
		if ctx.nontrivial {
			addHash(st.Nontrivial, trialHash(t))
			if sample != nil {
				st.Samples = append(st.Samples, sample)
			}
		}
		if inc != nil {
			rep.Inconclusive = append(rep.Inconclusive, fmt.Sprintf("ord=%d: %s", ord, inc.Why))
			if len(rep.Inconclusive) > 20 {
				break
			}
			continue
		}
		if f == nil {
			continue
		}
		if known[f.Class] {
			st.KnownHits[f.Class]++
			continue
		}
		if v, ok := seen[f.Class]; ok {
			v.Count++
			continue
		}
		if len(seen) >= 4 {
			continue
		}
		armWatchdogFor(fmt.Sprintf("%s ord=%d (minimising)", p.ID, ord), 400*time.Second)
		budget := 1500
		min, tries := minimise(p, t, f.Class, budget)
		min.Note = "class: " + f.Class + "\n" + f.Detail
		// final confirmation in-process; the master confirms again in a fresh process
		cctx := &Ctx{St: newStats(), quiet: true}
		mf, _ := checkTrial(p, cloneTrial(min), cctx)
		if mf != nil && mf.Class == f.Class {
			min.Note = "class: " + mf.Class + "\n" + mf.Detail
		} else {
			min = t
		}
		name := fmt.Sprintf("%s-%016x.json", p.ID, mix(hashString(f.Class), trialHash(min)))
		path := filepath.Join(*outDir, name)
		b, _ := json.MarshalIndent(min, "", " ")
		if err := os.WriteFile(path, b, 0644); err != nil {
			fatal(err)
		}
		v := &violationRec{Class: f.Class, Detail: f.Detail, Replay: path, Count: 1, MinTries: tries}
		seen[f.Class] = v
	}
	if watchdog != nil {
		watchdog.Stop()
	}
	for _, v := range seen {
		rep.Violations = append(rep.Violations, *v)
	}
	sort.Slice(rep.Violations, func(i, j int) bool { return rep.Violations[i].Class < rep.Violations[j].Class })
	rep.WallS = time.Since(t0).Seconds()
	rep.Capped = len(st.Nontrivial) >= maxHashes || len(st.Traces) >= maxHashes || len(st.Partials) >= maxHashes
	b, _ := json.Marshal(rep)
	base := filepath.Join(*outDir, fmt.Sprintf("w%02d", *shard))
	if err := os.WriteFile(base+".json", b, 0644); err != nil {
		fatal(err)
	}
	writeHashes(base+".hashes", st.Nontrivial, st.Traces, st.Partials)
	stepsOut := make([]byte, 4*len(st.StepsHist))
	for i, v := range st.StepsHist {
		binary.LittleEndian.PutUint32(stepsOut[4*i:], uint32(v))
	}
	os.WriteFile(base+".steps", stepsOut, 0644)
}

func mergeInto(dst, src map[string]int) {
	for k, v := range src {
		dst[k] += v
	}
}

// replayFile runs one replay file; returns the failure (nil if the property holds on it).
func replayFile(path string) (*Trial, *Failure, *Inconclusive, *Ctx) {
	b, err := os.ReadFile(path)
	if err != nil {
		fatal(err)
	}
	var t Trial
	if err := json.Unmarshal(b, &t); err != nil {
		fatal(path, err)
	}
	p := props[t.Prop]
	if p == nil {
		fatal("unknown property in replay file:", t.Prop)
	}
	ctx := &Ctx{St: newStats()}
	f, inc := checkTrial(p, &t, ctx)
	return &t, f, inc, ctx
}

// scheduleSummary renders a run's decision list relative to the baseline policy (all zeros).
func scheduleSummary(t *Trial) string {
	var sb strings.Builder
	for i, rc := range t.Runs {
		nz := 0
		var parts []string
		for k, v := range rc.Replay {
			if v != 0 {
				nz++
				if len(parts) < 12 {
					ar := ""
					if k < len(rc.Arity) {
						ar = fmt.Sprintf("/%d", rc.Arity[k])
					}
					parts = append(parts, fmt.Sprintf("#%d=%d%s", k, v, ar))
				}
			}
		}
		cpus := fmt.Sprint(rc.NumCPU)
		if rc.MaxProcs > 0 {
			cpus += fmt.Sprintf(" GOMAXPROCS=%d", rc.MaxProcs)
		}
		fmt.Fprintf(&sb, "  run %d: threads=%d NumCPU=%s map-order-mode=%d read-chunk-mode=%d, %d decisions", i, rc.Threads, cpus, rc.MapMode, rc.Chunk, len(rc.Replay))
		if nz == 0 {
			sb.WriteString(", all baseline (fails under the run-to-block schedule)")
		} else {
			fmt.Fprintf(&sb, ", %d differ from the baseline policy: %s", nz, strings.Join(parts, " "))
			if nz > len(parts) {
				sb.WriteString(" ...")
			}
		}
		for _, f := range rc.Faults {
			fmt.Fprintf(&sb, "; fault %s on %q at %d", f.Kind, f.Dest, f.K)
		}
		sb.WriteString("\n")
	}
	return sb.String()
}

func replayCmd(args []string) {
	fs := flag.NewFlagSet("replay", flag.ExitOnError)
	verbose := fs.Bool("v", false, "")
	fs.Parse(args)
	if fs.NArg() != 1 {
		fatal("usage: replay <file>")
	}
	path := fs.Arg(0)
	t, f, inc, ctx := replayFile(path)
	if inc != nil {
		fmt.Println("INCONCLUSIVE:", inc.Why)
		os.Exit(2)
	}
	if ctx.St.Probes["replay_diverged"] > 0 {
		fmt.Println("REPLAY-DIVERGED: the recorded decisions no longer match the code's operations (the tree changed since the file was written)")
	}
	if f == nil {
		fmt.Printf("replay %s: property %s holds on this trial\n", path, t.Prop)
		os.Exit(0)
	}
	fmt.Printf("CLASS %s\n", f.Class)
	if *verbose || true {
		fmt.Println(f.Detail)
	}
	fmt.Printf("seed: VERIF_SEED=%d ordinal=%d sub-seed=%d\nminimised schedule and faults:\n%s", t.Seed, t.Ordinal, t.SubSeed, scheduleSummary(t))
	fmt.Printf("VIOLATION property=%s replay=%s\n", t.Prop, path)
	os.Exit(1)
}

func percentile(sorted []int, p float64) int {
	if len(sorted) == 0 {
		return 0
	}
	i := int(p * float64(len(sorted)-1))
	return sorted[i]
}

func master(args []string) {
	fs := flag.NewFlagSet("check", flag.ExitOnError)
	prop := fs.String("prop", "", "")
	tier := fs.String("tier", "quick", "")
	seed := fs.Uint64("seed", 1, "")
	workers := fs.Int("workers", 16, "")
	verifDir := fs.String("verif", "/verif", "")
	scratch := fs.String("scratch", "", "")
	raceBin := fs.String("racebin", "", "")
	fs.Parse(args)
	p := props[*prop]
	if p == nil {
		fatal("unknown property", *prop)
	}
	t0 := time.Now()
	self, _ := os.Executable()
	work := filepath.Join(*scratch, "work-"+p.ID)
	os.MkdirAll(work, 0755)
	exitCode := 0
	nViol := 0

	// 1. known findings: replay the open ones
	known := loadKnown(*verifDir)
	knownReplayed := []string{}
	var regress []violationRec
	for _, k := range known {
		if k.Property != p.ID {
			continue
		}
		if k.Status == "fixed" {
			// a repaired defect suppresses nothing: its stored case is a regression case
			if k.Replay == "" {
				continue
			}
			_, f, inc, _ := replayFile(filepath.Join(*verifDir, k.Replay))
			if inc != nil {
				fatal("replay of fixed finding inconclusive:", k.Class, inc.Why)
			}
			if f != nil {
				regress = append(regress, violationRec{Class: f.Class, Detail: "regression of a defect recorded as fixed (" + k.Commit + "): " + f.Detail, Replay: filepath.Join(*verifDir, k.Replay), Count: 1})
				knownReplayed = append(knownReplayed, k.Class+" (fixed "+k.Commit+"): FAILS AGAIN")
			} else {
				knownReplayed = append(knownReplayed, k.Class+" (fixed "+k.Commit+"): holds")
			}
			continue
		}
		if k.Replay == "" {
			fatal("known finding without replay file:", k.Class)
		}
		_, f, inc, _ := replayFile(filepath.Join(*verifDir, k.Replay))
		if inc != nil {
			fatal("known finding replay inconclusive:", k.Class, inc.Why)
		}
		if f != nil && f.Class == k.Class {
			fmt.Printf("KNOWN-FINDING: property=%s %s [%s]\n", p.ID, k.What, k.Class)
			knownReplayed = append(knownReplayed, k.Class+": still fails")
		} else if f != nil {
			// the stored case now fails differently: that is a new violation
			fmt.Printf("harness: stored case of known finding %s now fails with class %s\n", k.Class, f.Class)
			knownReplayed = append(knownReplayed, k.Class+": fails with different class "+f.Class)
		} else {
			knownReplayed = append(knownReplayed, k.Class+": no longer fails")
		}
	}

	// 2. exploration in worker processes
	n := *workers
	procs := make([]*exec.Cmd, n)
	for i := 0; i < n; i++ {
		bin := self
		c := exec.Command(bin, "worker", "-prop", p.ID, "-tier", *tier, "-seed", fmt.Sprint(*seed), "-shard", fmt.Sprint(i), "-nshards", fmt.Sprint(n), "-out", work, "-verif", *verifDir)
		c.Stdout, c.Stderr = os.Stderr, os.Stderr
		c.Env = append(os.Environ(), "GOMAXPROCS=2", "GOMEMLIMIT=3GiB")
		if err := c.Start(); err != nil {
			fatal(err)
		}
		procs[i] = c
	}
	trouble := false
	for i, c := range procs {
		if err := c.Wait(); err != nil {
			fmt.Fprintf(os.Stderr, "harness: worker %d: %v\n", i, err)
			trouble = true
		}
	}
	if trouble {
		fmt.Println("INCONCLUSIVE: a worker process failed (harness trouble, not a violation)")
		os.Exit(2)
	}
	st := newStats()
	maxHashes *= 32
	viols := regress
	var incs []string
	var steps []int
	capped := false
	for i := 0; i < n; i++ {
		base := filepath.Join(work, fmt.Sprintf("w%02d", i))
		b, err := os.ReadFile(base + ".json")
		if err != nil {
			fatal(err)
		}
		var rep workerReport
		rep.Stats = newStats()
		if err := json.Unmarshal(b, &rep); err != nil {
			fatal(err)
		}
		w := rep.Stats
		st.Trials += w.Trials
		st.Evaluations += w.Evaluations
		st.Steps += w.Steps
		st.StepLimit += w.StepLimit
		mergeInto(st.Outcomes, w.Outcomes)
		mergeInto(st.Strategies, w.Strategies)
		mergeInto(st.Faults, w.Faults)
		mergeInto(st.Probes, w.Probes)
		mergeInto(st.Discards, w.Discards)
		mergeInto(st.Threads, w.Threads)
		mergeInto(st.NumCPU, w.NumCPU)
		mergeInto(st.Kinds, w.Kinds)
		mergeInto(st.Cmds, w.Cmds)
		mergeInto(st.KnownHits, w.KnownHits)
		if len(st.Samples) < 4 {
			st.Samples = append(st.Samples, w.Samples...)
		}
		readHashes(base+".hashes", st.Nontrivial, st.Traces, st.Partials)
		if sb, err := os.ReadFile(base + ".steps"); err == nil {
			for k := 0; k+4 <= len(sb); k += 4 {
				steps = append(steps, int(binary.LittleEndian.Uint32(sb[k:])))
			}
		}
		viols = append(viols, rep.Violations...)
		incs = append(incs, rep.Inconclusive...)
		capped = capped || rep.Capped
	}
	sort.Ints(steps)

	// 3. optional race batch (C12): handled by the property-specific hook
	raceInfo := map[string]interface{}{}
	if *raceBin != "" && p.ID == "C12" {
		rv, info := raceBatch(*raceBin, work, *tier, *seed, n, *verifDir)
		raceInfo = info
		viols = append(viols, rv...)
	}

	// 4. confirm each distinct class in a fresh process, keep the replay file under /verif/replays
	byClass := map[string]violationRec{}
	for _, v := range viols {
		if o, ok := byClass[v.Class]; ok {
			o.Count += v.Count
			byClass[v.Class] = o
		} else {
			byClass[v.Class] = v
		}
	}
	classes := make([]string, 0, len(byClass))
	for c := range byClass {
		classes = append(classes, c)
	}
	sort.Strings(classes)
	replayDir := filepath.Join(*verifDir, "replays")
	if d := os.Getenv("VERIF_REPLAY_DIR"); d != "" {
		replayDir = d
	}
	os.MkdirAll(replayDir, 0755)
	for _, cl := range classes {
		v := byClass[cl]
		if strings.HasPrefix(cl, "C12/race") {
			dst := filepath.Join(replayDir, filepath.Base(v.Replay))
			copyFile(v.Replay, dst)
			fmt.Printf("violation class %s (%d occurrences)\n%s\n", cl, v.Count, v.Detail)
			fmt.Printf("VIOLATION property=%s replay=%s\n", p.ID, dst)
			nViol++
			exitCode = 1
			continue
		}
		dst := filepath.Join(replayDir, filepath.Base(v.Replay))
		if strings.HasPrefix(v.Replay, filepath.Join(*verifDir, "findings")) {
			dst = v.Replay
		} else {
			copyFile(v.Replay, dst)
		}
		out, err := exec.Command(self, "replay", dst).CombinedOutput()
		code := 0
		if ee, ok := err.(*exec.ExitError); ok {
			code = ee.ExitCode()
		} else if err != nil {
			fatal(err)
		}
		if code == 1 && strings.Contains(string(out), "CLASS "+cl+"\n") {
			fmt.Printf("violation class %s (%d occurrences in this batch, minimised in %d re-executions)\n%s\n", cl, v.Count, v.MinTries, v.Detail)
			if k := strings.Index(string(out), "seed: VERIF_SEED="); k >= 0 {
				if e := strings.Index(string(out)[k:], "VIOLATION property="); e > 0 {
					fmt.Print(string(out)[k : k+e])
				}
			}
			fmt.Printf("VIOLATION property=%s replay=%s\n", p.ID, dst)
			nViol++
			exitCode = 1
		} else {
			fmt.Printf("HARNESS-NONDETERMINISM: replay of %s in a fresh process did not reproduce class %s (exit %d):\n%s\n", dst, cl, code, out)
			if exitCode == 0 {
				exitCode = 2
			}
		}
	}
	if len(incs) > 0 {
		fmt.Printf("INCONCLUSIVE: %d trials could not be decided, e.g. %s\n", len(incs), incs[0])
		if exitCode == 0 {
			exitCode = 2
		}
	}
	var zeroExpected []string
	for _, ex := range p.Expected {
		if st.Probes[ex] == 0 && st.Faults[ex] == 0 {
			zeroExpected = append(zeroExpected, ex)
			fmt.Printf("NOTE: probe %q stayed at zero on this tree: the explored runs never exercised that mechanism (see evidence)\n", ex)
		}
	}
	for _, rq := range p.Required {
		if st.Probes[rq] == 0 && st.Faults[rq] == 0 {
			fmt.Printf("INCONCLUSIVE: required probe %q stayed at zero: the workload does not reach the mechanism\n", rq)
			if exitCode == 0 {
				exitCode = 2
			}
		}
	}

	// 5. evidence
	wall := time.Since(t0).Seconds()
	if len(st.Samples) > 4 {
		st.Samples = st.Samples[:4]
	}
	samples := make([]interface{}, 0, len(st.Samples))
	for _, s := range st.Samples {
		var v interface{}
		json.Unmarshal(s, &v)
		samples = append(samples, v)
	}
	cov := map[string]interface{}{
		"evaluations":                      st.Evaluations,
		"distinct_nontrivial":              len(st.Nontrivial),
		"rule":                             p.Rule,
		"samples":                          samples,
		"trials":                           st.Trials,
		"verif_seed":                       *seed,
		"subseed_ordinals":                 fmt.Sprintf("0..%d (sub-seed = hash(VERIF_SEED, property, ordinal))", trialsFor(p, *tier)-1),
		"runs_per_hour":                    int(float64(st.Evaluations) / wall * 3600),
		"trials_per_hour":                  int(float64(st.Trials) / wall * 3600),
		"distinct_counts_are_lower_bounds": capped || len(st.Nontrivial) >= maxHashes || len(st.Traces) >= maxHashes,
		"steps_total":                      st.Steps,
		"steps_p50":                        percentile(steps, 0.5),
		"steps_p99":                        percentile(steps, 0.99),
		"simulated_time_note":              "gofasta has no clock or timer; simulated time is the number of visible operations (steps)",
		"strategies":                       st.Strategies,
		"fault_kinds_fired":                st.Faults,
		"probes":                           st.Probes,
		"distinct_traces":                  len(st.Traces),
		"distinct_partial_orders":          len(st.Partials),
		"interleaving_measure":             "distinct_traces = distinct hashes of the full (goroutine, operation, channel) sequence of a run; distinct_partial_orders = distinct hashes of the per-channel operation sequences (commuting reorderings collapse)",
		"outcomes":                         st.Outcomes,
		"discards":                         st.Discards,
		"threads_hist":                     st.Threads,
		"numcpu_hist":                      st.NumCPU,
		"trial_kinds":                      st.Kinds,
		"commands":                         st.Cmds,
		"known_findings_replayed":          knownReplayed,
		"expected_probes_at_zero":          zeroExpected,
		"known_finding_hits":               st.KnownHits,
		"workers":                          n,
		"real_vs_stub":                     realVsStub,
		"exhaustive":                       false,
	}
	for k, v := range raceInfo {
		cov[k] = v
	}
	if ex, ok := exhaustiveNote[p.ID+"/"+*tier]; ok {
		cov["exhaustive_part"] = ex
	}
	ev := map[string]interface{}{
		"property_id": p.ID,
		"tier":        *tier,
		"seed":        *seed,
		"level":       p.Level,
		"coverage":    cov,
		"assumptions": append([]string{
			"data-race-free programs behave as some interleaving of their synchronisation operations, so interleaving at visible-operation granularity covers the schedules the property speaks about (race freedom itself is checked under C12)",
			"simgen's source transformation preserves semantics (self-checks: repository test suite passes on the transformed tree; simrt primitives tested against the language semantics)",
			"third-party code on the data path (biogo/hts/sam, encoding/csv, bufio, cobra) is sequential",
		}, p.Assumptions...),
		"wall_s":     wall,
		"violations": nViol,
	}
	b, _ := json.MarshalIndent(ev, "", " ")
	evDir := filepath.Join(*verifDir, "evidence")
	if d := os.Getenv("VERIF_EVIDENCE_DIR"); d != "" {
		evDir = d // (mutant runs of the sensitivity self-test must not overwrite the real evidence)
	}
	os.MkdirAll(evDir, 0755)
	if err := os.WriteFile(filepath.Join(evDir, p.ID+".json"), b, 0644); err != nil {
		fatal(err)
	}
	fmt.Printf("%s %s seed=%d: %d trials, %d simulated runs, %d distinct non-trivial cases, %d distinct traces, %.1fs, violations=%d exit=%d\n",
		p.ID, *tier, *seed, st.Trials, st.Evaluations, len(st.Nontrivial), len(st.Traces), wall, nViol, exitCode)
	os.RemoveAll(work)
	os.Exit(exitCode)
}

var exhaustiveNote = map[string]string{}

const realVsStub = "real, unmodified logic: every function body of gofasta's pkg/** and cmd/** (parsers, CIGAR walk, flattening, distances, catchments, writers), biogo/hts/sam, encoding/csv, bufio; replaced by simulator primitives of identical semantics: channels, select, go statements, sync.WaitGroup/Mutex/RWMutex/Once/Pool and sync/atomic (where a change introduces them), map range order, runtime.NumCPU/GOMAXPROCS, os.Stdout/Stderr/Stdin/Create/Open/OpenFile/MkdirAll, *os.File and fmt.Print*; process memory: package-level variables of pkg/** are re-initialised and pools emptied at the start of every run (a run stands for one cold process); stubbed: process exit (error => status 1 is assumed from cmd/root.go); not exercised: real file descriptors, the OS and Go runtime schedulers"

func copyFile(src, dst string) {
	b, err := os.ReadFile(src)
	if err != nil {
		fatal(err)
	}
	if err := os.WriteFile(dst, b, 0644); err != nil {
		fatal(err)
	}
}

func main() {
	if len(os.Args) < 2 {
		fatal("usage: harness check|worker|replay|selftest ...")
	}
	_ = simrt.RaceBuild
	switch os.Args[1] {
	case "check":
		master(os.Args[2:])
	case "worker":
		worker(os.Args[2:])
	case "replay":
		replayCmd(os.Args[2:])
	case "raceworker":
		raceWorker(os.Args[2:])
	case "selftest":
		selftest(os.Args[2:])
	case "digest":
		digestCmd(os.Args[2:])
	case "diffcases":
		diffCasesCmd(os.Args[2:])
	case "list":
		ids := []string{}
		for id := range props {
			ids = append(ids, id)
		}
		sort.Strings(ids)
		fmt.Println(strings.Join(ids, " "))
	default:
		fatal("unknown subcommand", os.Args[1])
	}
}
