//go:build !realtree

package main

// realMode: false = the transformed tree under the simulator (every check); true = the untransformed
// tree on the real runtime (only the sim-vs-real differential of the self-test).
const realMode = false
