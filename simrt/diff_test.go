package simrt

import (
	"fmt"
	"sort"
	"strings"
	"sync"
	"testing"
	"time"
)

// Differential test of the simulated primitives against the real ones: a family of tiny programs
// (<= 3 goroutines plus main, 2 channels, <= 4 operations each) runs on real channels and under the
// simulator. Every outcome the Go runtime produces (values received per goroutine, which goroutines
// are stuck, panic messages) must be among the outcomes the simulator produces over its schedules.

type dop struct {
	kind int // 0 send, 1 recv, 2 close, 3 select{recv a, recv b}, 4 select{send a, recv b, default}, 5 recv2
	ch   int
	val  int
}

type dprog struct {
	caps  [2]int
	procs [][]dop
}

func (p dprog) String() string {
	var sb strings.Builder
	fmt.Fprintf(&sb, "caps=%v", p.caps)
	for i, ops := range p.procs {
		fmt.Fprintf(&sb, " g%d:", i)
		for _, o := range ops {
			fmt.Fprintf(&sb, "[%d c%d %d]", o.kind, o.ch, o.val)
		}
	}
	return sb.String()
}

func genProg(r *uint64) dprog {
	rnd := func(n int) int { return int(splitmix(r) % uint64(n)) }
	p := dprog{caps: [2]int{0, rnd(3)}}
	if rnd(4) == 0 {
		p.caps[0] = 1
	}
	np := 2 + rnd(2)
	v := 1
	for i := 0; i < np; i++ {
		var ops []dop
		for k := 1 + rnd(4); k > 0; k-- {
			kind := []int{0, 0, 0, 1, 1, 1, 5, 2, 3, 4}[rnd(10)]
			ops = append(ops, dop{kind, rnd(2), v})
			v++
		}
		p.procs = append(p.procs, ops)
	}
	return p
}

// outcome: per goroutine "g<i>:<events>" where events are received values / panics / "stuck@k"
func runReal(p dprog, wait time.Duration) string {
	chs := [2]chan int{make(chan int, p.caps[0]), make(chan int, p.caps[1])}
	res := make([][]string, len(p.procs))
	var mu sync.Mutex
	var wg sync.WaitGroup
	for i := range p.procs {
		wg.Add(1)
		go func(i int) {
			defer wg.Done()
			step := 0
			note := func(s string) { mu.Lock(); res[i] = append(res[i], s); mu.Unlock() }
			defer func() {
				if r := recover(); r != nil {
					note(fmt.Sprintf("panic(%v)", r))
				}
			}()
			for _, o := range p.procs[i] {
				mu.Lock()
				res[i] = append(res[i], fmt.Sprintf("@%d", step)) // progress marker, replaced below
				mu.Unlock()
				switch o.kind {
				case 0:
					chs[o.ch] <- o.val
					note("s")
				case 1:
					note(fmt.Sprintf("r%d", <-chs[o.ch]))
				case 5:
					v, ok := <-chs[o.ch]
					note(fmt.Sprintf("r%d,%v", v, ok))
				case 2:
					close(chs[o.ch])
					note("c")
				case 3:
					select {
					case v := <-chs[0]:
						note(fmt.Sprintf("a%d", v))
					case v := <-chs[1]:
						note(fmt.Sprintf("b%d", v))
					}
				case 4:
					select {
					case chs[0] <- o.val:
						note("sa")
					case v := <-chs[1]:
						note(fmt.Sprintf("b%d", v))
					default:
						note("d")
					}
				}
				step++
			}
			note("end")
		}(i)
	}
	fin := make(chan struct{})
	go func() { wg.Wait(); close(fin) }()
	select {
	case <-fin:
	case <-time.After(wait):
	}
	mu.Lock()
	defer mu.Unlock()
	return canon(res)
}

func canon(res [][]string) string {
	var parts []string
	for i, ev := range res {
		var out []string
		for _, e := range ev {
			if strings.HasPrefix(e, "@") {
				continue
			}
			out = append(out, e)
		}
		st := "stuck"
		if n := len(out); n > 0 && (out[n-1] == "end" || strings.HasPrefix(out[n-1], "panic")) {
			st = ""
		}
		parts = append(parts, fmt.Sprintf("g%d:%s%s", i, strings.Join(out, "."), st))
	}
	sort.Strings(parts)
	return strings.Join(parts, " ")
}

func runSim(p dprog, cfg Config) string {
	res := make([][]string, len(p.procs))
	Run(cfg, func() {
		chs := [2]*Chan[int]{MakeChan[int](p.caps[0], "a"), MakeChan[int](p.caps[1], "b")}
		var wg WaitGroup
		wg.Add(len(p.procs))
		for i := range p.procs {
			i := i
			Go("p", func() {
				defer wg.Done()
				note := func(s string) { res[i] = append(res[i], s) }
				defer func() {
					if r := recover(); r != nil {
						if _, ok := r.(runtimeError); ok {
							note(fmt.Sprintf("panic(%v)", r))
							return
						}
						panic(r)
					}
				}()
				for _, o := range p.procs[i] {
					switch o.kind {
					case 0:
						chs[o.ch].Send(o.val)
						note("s")
					case 1:
						note(fmt.Sprintf("r%d", chs[o.ch].Recv()))
					case 5:
						v, ok := chs[o.ch].Recv2()
						note(fmt.Sprintf("r%d,%v", v, ok))
					case 2:
						chs[o.ch].Close()
						note("c")
					case 3:
						var va, vb int
						switch Select(chs[0].RecvCase(&va, nil), chs[1].RecvCase(&vb, nil)) {
						case 0:
							note(fmt.Sprintf("a%d", va))
						case 1:
							note(fmt.Sprintf("b%d", vb))
						}
					case 4:
						var vb int
						switch Select(chs[0].SendCase(o.val), chs[1].RecvCase(&vb, nil), Default()) {
						case 0:
							note("sa")
						case 1:
							note(fmt.Sprintf("b%d", vb))
						case 2:
							note("d")
						}
					}
				}
				note("end")
			})
		}
		wg.Wait()
	})
	return canon(res)
}

func TestDifferentialAgainstRealChannels(t *testing.T) {
	if RaceBuild {
		t.Skip("the generated programs close channels that other goroutines send on: racy by design on real channels")
	}
	seed := uint64(20260928)
	n := 250
	if testing.Short() {
		n = 60
	}
	missing := 0
	for k := 0; k < n; k++ {
		p := genProg(&seed)
		sim := map[string]bool{}
		sim[runSim(p, Config{})] = true
		for s := 0; s < 400; s++ {
			st := Strategy{Kind: 1 + s%4, SwitchP: 0.4, Depth: 2, Horizon: 30, StarveMask: uint64(1) << uint(s%5), SelectRand: true}
			sim[runSim(p, Config{Seed: uint64(s), Strategy: st})] = true
		}
		for rep := 0; rep < 3; rep++ {
			real := runReal(p, 30*time.Millisecond)
			if !sim[real] {
				// "stuck" is judged by a wall-clock timeout: on a loaded machine a goroutine that is
				// merely slow looks stuck, so confirm with a generous timeout before complaining
				real = runReal(p, 2*time.Second)
			}
			if !sim[real] {
				missing++
				keys := []string{}
				for o := range sim {
					keys = append(keys, o)
				}
				sort.Strings(keys)
				t.Errorf("program %s\n real outcome not produced by the simulator: %s\n simulated outcomes:\n  %s", p, real, strings.Join(keys, "\n  "))
			}
		}
	}
	if missing == 0 {
		t.Logf("%d programs: every outcome of the Go runtime is among the simulator's outcomes", n)
	}
}
