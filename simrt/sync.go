package simrt

import (
	"runtime"
	"time"
)

// WaitGroup is a simulated sync.WaitGroup.
type WaitGroup struct {
	n  int
	hb int64
}

//go:norace
func (w *WaitGroup) Add(d int) {
	if d < 0 {
		raceReleaseMerge(&w.hb)
	}
	w.n += d
	if w.n < 0 {
		panic("sync: negative WaitGroup counter")
	}
}

//go:norace
func (w *WaitGroup) Done() {
	s := sim()
	g := s.cur
	g.op, g.what, g.cc = opYield, "wg.Done", nil
	runtime.Callers(2, g.pc[:])
	s.park(g)
	g.op, g.what = opNone, ""
	w.Add(-1)
}

//go:norace
func (w *WaitGroup) Wait() {
	s := sim()
	g := s.cur
	g.op, g.wg, g.what, g.cc = opWait, w, "", nil
	runtime.Callers(2, g.pc[:])
	s.park(g)
	g.op, g.wg = opNone, nil
	raceAcquire(&w.hb)
}

// Mutex is a simulated sync.Mutex.
type Mutex struct {
	locked bool
	hb     int64
}

//go:norace
func (m *Mutex) Lock() {
	s := sim()
	g := s.cur
	g.op, g.mu, g.rw, g.what, g.cc = opLock, m, nil, "", nil
	runtime.Callers(2, g.pc[:])
	s.park(g)
	g.op, g.mu = opNone, nil
	m.locked = true
	raceAcquire(&m.hb)
}

//go:norace
func (m *Mutex) TryLock() bool {
	Yield("mutex.TryLock")
	if m.locked {
		return false
	}
	m.locked = true
	raceAcquire(&m.hb)
	return true
}

//go:norace
func (m *Mutex) Unlock() {
	Yield("mutex.Unlock")
	if !m.locked {
		panic("sync: unlock of unlocked mutex")
	}
	raceReleaseMerge(&m.hb)
	m.locked = false
}

// RWMutex is a simulated sync.RWMutex.
type RWMutex struct {
	w   bool
	r   int
	hb  int64
	hbr int64
}

//go:norace
func (m *RWMutex) Lock() {
	s := sim()
	g := s.cur
	g.op, g.mu, g.rw, g.what, g.cc = opLock, nil, m, "", nil
	runtime.Callers(2, g.pc[:])
	s.park(g)
	g.op, g.rw = opNone, nil
	m.w = true
	raceAcquire(&m.hb)
	raceAcquire(&m.hbr)
}

//go:norace
func (m *RWMutex) Unlock() {
	Yield("rwmutex.Unlock")
	if !m.w {
		panic("sync: Unlock of unlocked RWMutex")
	}
	raceReleaseMerge(&m.hb)
	m.w = false
}

//go:norace
func (m *RWMutex) RLock() {
	s := sim()
	g := s.cur
	g.op, g.mu, g.rw, g.what, g.cc = opRLock, nil, m, "", nil
	runtime.Callers(2, g.pc[:])
	s.park(g)
	g.op, g.rw = opNone, nil
	m.r++
	raceAcquire(&m.hb)
}

//go:norace
func (m *RWMutex) RUnlock() {
	Yield("rwmutex.RUnlock")
	if m.r <= 0 {
		panic("sync: RUnlock of unlocked RWMutex")
	}
	raceReleaseMerge(&m.hbr)
	m.r--
}

// Once is a simulated sync.Once.
type Once struct {
	m    Mutex
	done bool
}

func (o *Once) Do(f func()) {
	o.m.Lock()
	if !o.done {
		defer o.m.Unlock()
		defer o.setDone()
		f()
		return
	}
	o.m.Unlock()
}

//go:norace
func (o *Once) setDone() { o.done = true }

// Sleep advances the discrete-event logical clock: the sleeper becomes runnable
// only when nothing else is, and time then jumps to the earliest deadline.
//
//go:norace
func Sleep(d time.Duration) {
	s := sim()
	g := s.cur
	if d < 0 {
		d = 0
	}
	g.op, g.until, g.what, g.cc = opSleep, s.now+int64(d), "", nil
	runtime.Callers(2, g.pc[:])
	s.park(g)
	g.op = opNone
}

// Now is the logical clock (starts at the Unix epoch).
//
//go:norace
func Now() time.Time {
	if S == nil {
		return time.Unix(0, 0)
	}
	return time.Unix(0, S.now)
}

// After is time.After on the logical clock.
func After(d time.Duration) *Chan[time.Time] {
	c := MakeChan[time.Time](1, "simrt.After")
	Go("simrt.After", afterFunc{c, d}.run)
	return c
}

type afterFunc struct {
	c *Chan[time.Time]
	d time.Duration
}

func (a afterFunc) run() {
	Sleep(a.d)
	a.c.Send(Now())
}

// Pool is a simulated sync.Pool: Get returns one of the items put earlier (which one is a
// decision; the baseline is the most recent) or a new one, as the real pool may drop items at any time.
type Pool struct {
	New   func() interface{}
	items [poolCap]interface{} // (a fixed array and element-wise moves: append/copy are instrumented inside the Go runtime)
	n     int
	hb    int64
	known bool
}

const poolCap = 64

// A package-level pool outlives a simulated run, but every run stands for a fresh process:
// pools are emptied when a run starts.
var allPools [256]*Pool
var nPools int

//go:norace
func (p *Pool) register() {
	if !p.known {
		p.known = true
		if nPools < len(allPools) {
			allPools[nPools] = p
			nPools++
		}
	}
}

//go:norace
func resetPools() {
	for _, p := range allPools[:nPools] {
		for i := 0; i < p.n; i++ {
			p.items[i] = nil
		}
		p.n = 0
	}
}

// RegisterReset registers a function that puts a package's variables back to their initial values;
// simgen generates one per package of the system under test and every run starts by calling them all
// (in package initialisation order, which is fixed).
var resets []func()

func RegisterReset(f func()) { resets = append(resets, f) }

func resetPackages() {
	for _, f := range resets {
		f()
	}
}

//go:norace
func (p *Pool) Put(x interface{}) {
	if x == nil {
		return
	}
	p.register()
	Yield("pool.Put")
	raceReleaseMerge(&p.hb)
	if p.n < poolCap {
		p.items[p.n] = x
		p.n++
	}
}

//go:norace
func (p *Pool) Get() interface{} {
	p.register()
	Yield("pool.Get")
	n := p.n
	if n > 0 {
		k := 0
		if S != nil {
			k = S.choose(n + 1)
		}
		if k < n {
			raceAcquire(&p.hb)
			i := n - 1 - k
			x := p.items[i]
			for j := i; j+1 < n; j++ {
				p.items[j] = p.items[j+1]
			}
			p.items[n-1] = nil
			p.n = n - 1
			return x
		}
	}
	if p.New != nil {
		return p.New()
	}
	return nil
}
