package simrt

// Simulated sync/atomic: every operation is a visible operation (a scheduling point) and, in a
// -race build, an acquire+release on the variable's address, as sequentially consistent atomics are.

import "unsafe"

//go:norace
func atomicPoint(what string, addr unsafe.Pointer) {
	Yield(what)
	raceAcquireAddr(addr)
	raceReleaseMergeAddr(addr)
}

//go:norace
func AtomicAddInt32(addr *int32, delta int32) int32 {
	atomicPoint("atomic.Add", unsafe.Pointer(addr))
	*addr += delta
	return *addr
}

//go:norace
func AtomicLoadInt32(addr *int32) int32 {
	atomicPoint("atomic.Load", unsafe.Pointer(addr))
	return *addr
}

//go:norace
func AtomicStoreInt32(addr *int32, v int32) {
	atomicPoint("atomic.Store", unsafe.Pointer(addr))
	*addr = v
}

//go:norace
func AtomicSwapInt32(addr *int32, v int32) int32 {
	atomicPoint("atomic.Swap", unsafe.Pointer(addr))
	old := *addr
	*addr = v
	return old
}

//go:norace
func AtomicCompareAndSwapInt32(addr *int32, old, new int32) bool {
	atomicPoint("atomic.CompareAndSwap", unsafe.Pointer(addr))
	if *addr == old {
		*addr = new
		return true
	}
	return false
}

// AtomicInt32 is atomic.Int32.
type AtomicInt32 struct{ v int32 }

func (a *AtomicInt32) Add(d int32) int32              { return AtomicAddInt32(&a.v, d) }
func (a *AtomicInt32) Load() int32                    { return AtomicLoadInt32(&a.v) }
func (a *AtomicInt32) Store(v int32)                  { AtomicStoreInt32(&a.v, v) }
func (a *AtomicInt32) Swap(v int32) int32             { return AtomicSwapInt32(&a.v, v) }
func (a *AtomicInt32) CompareAndSwap(o, n int32) bool { return AtomicCompareAndSwapInt32(&a.v, o, n) }

//go:norace
func AtomicAddInt64(addr *int64, delta int64) int64 {
	atomicPoint("atomic.Add", unsafe.Pointer(addr))
	*addr += delta
	return *addr
}

//go:norace
func AtomicLoadInt64(addr *int64) int64 {
	atomicPoint("atomic.Load", unsafe.Pointer(addr))
	return *addr
}

//go:norace
func AtomicStoreInt64(addr *int64, v int64) {
	atomicPoint("atomic.Store", unsafe.Pointer(addr))
	*addr = v
}

//go:norace
func AtomicSwapInt64(addr *int64, v int64) int64 {
	atomicPoint("atomic.Swap", unsafe.Pointer(addr))
	old := *addr
	*addr = v
	return old
}

//go:norace
func AtomicCompareAndSwapInt64(addr *int64, old, new int64) bool {
	atomicPoint("atomic.CompareAndSwap", unsafe.Pointer(addr))
	if *addr == old {
		*addr = new
		return true
	}
	return false
}

// AtomicInt64 is atomic.Int64.
type AtomicInt64 struct{ v int64 }

func (a *AtomicInt64) Add(d int64) int64              { return AtomicAddInt64(&a.v, d) }
func (a *AtomicInt64) Load() int64                    { return AtomicLoadInt64(&a.v) }
func (a *AtomicInt64) Store(v int64)                  { AtomicStoreInt64(&a.v, v) }
func (a *AtomicInt64) Swap(v int64) int64             { return AtomicSwapInt64(&a.v, v) }
func (a *AtomicInt64) CompareAndSwap(o, n int64) bool { return AtomicCompareAndSwapInt64(&a.v, o, n) }

//go:norace
func AtomicAddUint32(addr *uint32, delta uint32) uint32 {
	atomicPoint("atomic.Add", unsafe.Pointer(addr))
	*addr += delta
	return *addr
}

//go:norace
func AtomicLoadUint32(addr *uint32) uint32 {
	atomicPoint("atomic.Load", unsafe.Pointer(addr))
	return *addr
}

//go:norace
func AtomicStoreUint32(addr *uint32, v uint32) {
	atomicPoint("atomic.Store", unsafe.Pointer(addr))
	*addr = v
}

//go:norace
func AtomicSwapUint32(addr *uint32, v uint32) uint32 {
	atomicPoint("atomic.Swap", unsafe.Pointer(addr))
	old := *addr
	*addr = v
	return old
}

//go:norace
func AtomicCompareAndSwapUint32(addr *uint32, old, new uint32) bool {
	atomicPoint("atomic.CompareAndSwap", unsafe.Pointer(addr))
	if *addr == old {
		*addr = new
		return true
	}
	return false
}

// AtomicUint32 is atomic.Uint32.
type AtomicUint32 struct{ v uint32 }

func (a *AtomicUint32) Add(d uint32) uint32  { return AtomicAddUint32(&a.v, d) }
func (a *AtomicUint32) Load() uint32         { return AtomicLoadUint32(&a.v) }
func (a *AtomicUint32) Store(v uint32)       { AtomicStoreUint32(&a.v, v) }
func (a *AtomicUint32) Swap(v uint32) uint32 { return AtomicSwapUint32(&a.v, v) }
func (a *AtomicUint32) CompareAndSwap(o, n uint32) bool {
	return AtomicCompareAndSwapUint32(&a.v, o, n)
}

//go:norace
func AtomicAddUint64(addr *uint64, delta uint64) uint64 {
	atomicPoint("atomic.Add", unsafe.Pointer(addr))
	*addr += delta
	return *addr
}

//go:norace
func AtomicLoadUint64(addr *uint64) uint64 {
	atomicPoint("atomic.Load", unsafe.Pointer(addr))
	return *addr
}

//go:norace
func AtomicStoreUint64(addr *uint64, v uint64) {
	atomicPoint("atomic.Store", unsafe.Pointer(addr))
	*addr = v
}

//go:norace
func AtomicSwapUint64(addr *uint64, v uint64) uint64 {
	atomicPoint("atomic.Swap", unsafe.Pointer(addr))
	old := *addr
	*addr = v
	return old
}

//go:norace
func AtomicCompareAndSwapUint64(addr *uint64, old, new uint64) bool {
	atomicPoint("atomic.CompareAndSwap", unsafe.Pointer(addr))
	if *addr == old {
		*addr = new
		return true
	}
	return false
}

// AtomicUint64 is atomic.Uint64.
type AtomicUint64 struct{ v uint64 }

func (a *AtomicUint64) Add(d uint64) uint64  { return AtomicAddUint64(&a.v, d) }
func (a *AtomicUint64) Load() uint64         { return AtomicLoadUint64(&a.v) }
func (a *AtomicUint64) Store(v uint64)       { AtomicStoreUint64(&a.v, v) }
func (a *AtomicUint64) Swap(v uint64) uint64 { return AtomicSwapUint64(&a.v, v) }
func (a *AtomicUint64) CompareAndSwap(o, n uint64) bool {
	return AtomicCompareAndSwapUint64(&a.v, o, n)
}

// AtomicBool is atomic.Bool.
type AtomicBool struct{ v uint32 }

func (a *AtomicBool) Load() bool { return AtomicLoadUint32(&a.v) != 0 }
func (a *AtomicBool) Store(b bool) {
	var x uint32
	if b {
		x = 1
	}
	AtomicStoreUint32(&a.v, x)
}
func (a *AtomicBool) Swap(b bool) bool {
	var x uint32
	if b {
		x = 1
	}
	return AtomicSwapUint32(&a.v, x) != 0
}
func (a *AtomicBool) CompareAndSwap(o, n bool) bool {
	var x, y uint32
	if o {
		x = 1
	}
	if n {
		y = 1
	}
	return AtomicCompareAndSwapUint32(&a.v, x, y)
}
