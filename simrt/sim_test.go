package simrt

import (
	"fmt"
	"reflect"
	"testing"
)

func pipeline(n, workers int, out *[]int) func() {
	return func() {
		in := MakeChan[int](workers, "in")
		res := MakeChan[int](0, "res")
		done := MakeChan[bool](0, "done")
		var wg WaitGroup
		wg.Add(workers)
		for w := 0; w < workers; w++ {
			Go("worker", func() {
				for {
					v, ok := in.Recv2()
					if !ok {
						break
					}
					res.Send(v * v)
				}
				wg.Done()
			})
		}
		Go("closer", func() { wg.Wait(); res.Close() })
		Go("collector", func() {
			for {
				v, ok := res.Recv2()
				if !ok {
					break
				}
				*out = append(*out, v)
			}
			done.Send(true)
		})
		for i := 0; i < n; i++ {
			in.Send(i)
		}
		in.Close()
		done.Recv()
	}
}

func TestPipelineAllStrategies(t *testing.T) {
	orders := map[string]bool{}
	for seed := 0; seed < 400; seed++ {
		var out []int
		st := Strategy{Kind: seed % 5, SwitchP: 0.3, Depth: 2, Horizon: 60, StarveMask: uint64(seed), SelectRand: true}
		o := Run(Config{Seed: uint64(seed), Strategy: st}, pipeline(6, 3, &out))
		if o.Kind != Returned {
			t.Fatalf("seed %d: %v %s %s", seed, o.Kind, o.PanicValue, FormatBlocked(o.Blocked))
		}
		if len(out) != 6 {
			t.Fatalf("seed %d: got %v", seed, out)
		}
		sum := 0
		for _, v := range out {
			sum += v
		}
		if sum != 55 {
			t.Fatalf("seed %d: got %v", seed, out)
		}
		orders[fmt.Sprint(out)] = true
		// replay
		var out2 []int
		o2 := Run(Config{Replay: o.Decisions, ReplayArity: o.Arity}, pipeline(6, 3, &out2))
		if o2.Diverged || o2.Trace != o.Trace || !reflect.DeepEqual(out, out2) || o2.Steps != o.Steps {
			t.Fatalf("seed %d: replay differs: %v vs %v (div=%v)", seed, out, out2, o2.Diverged)
		}
	}
	if len(orders) < 10 {
		t.Fatalf("only %d distinct orders", len(orders))
	}
	t.Logf("%d distinct completion orders", len(orders))
}

func TestDeadlock(t *testing.T) {
	o := Run(Config{}, func() {
		c := MakeChan[int](0, "c")
		e := MakeChan[error](0, "e")
		Go("g", func() { e.Send(fmt.Errorf("x")) })
		c.Recv()
	})
	if o.Kind != Deadlocked || len(o.Blocked) != 2 {
		t.Fatalf("%v %v", o.Kind, o.Blocked)
	}
	t.Log(o.Signature())
}

func TestPanicInGoroutine(t *testing.T) {
	o := Run(Config{}, func() {
		c := MakeChan[int](0, "c")
		Go("g", func() { var a []int; _ = a[3] })
		c.Recv()
	})
	if o.Kind != Panicked {
		t.Fatalf("%v", o.Kind)
	}
	t.Log(o.Signature())
}

func TestSelectBothReady(t *testing.T) {
	got := map[int]int{}
	for seed := 0; seed < 200; seed++ {
		var which int
		o := Run(Config{Seed: uint64(seed), Strategy: Strategy{Kind: StratUniform, SelectRand: true}}, func() {
			a := MakeChan[int](1, "a")
			b := MakeChan[error](1, "b")
			a.Send(1)
			b.Send(nil)
			var v int
			var e error
			which = Select(a.RecvCase(&v, nil), b.RecvCase(&e, nil))
		})
		if o.Kind != Returned || o.Stats.SelectMultiReady != 1 || o.Stats.ErrAndOtherReady != 1 {
			t.Fatalf("%+v", o)
		}
		got[which]++
	}
	if got[0] == 0 || got[1] == 0 {
		t.Fatalf("%v", got)
	}
}

func TestClosedAndNil(t *testing.T) {
	o := Run(Config{}, func() {
		c := MakeChan[int](2, "c")
		c.Send(1)
		c.Send(2)
		c.Close()
		if v, ok := c.Recv2(); v != 1 || !ok {
			panic("fifo1")
		}
		if v, ok := c.Recv2(); v != 2 || !ok {
			panic("fifo2")
		}
		if v, ok := c.Recv2(); v != 0 || ok {
			panic("closed")
		}
		var nilc *Chan[int]
		if i := Select(nilc.RecvCase(nil, nil), Default()); i != 1 {
			panic("nil select")
		}
	})
	if o.Kind != Returned {
		t.Fatalf("%v %s", o.Kind, o.PanicValue)
	}
	o = Run(Config{}, func() {
		c := MakeChan[int](0, "c")
		c.Close()
		c.Send(1)
	})
	if o.Kind != Panicked || o.PanicValue != "send on closed channel" {
		t.Fatalf("%v %s", o.Kind, o.PanicValue)
	}
}

func TestMapKeys(t *testing.T) {
	m := map[string]int{"a": 1, "b": 2, "c": 3, "d": 4}
	seen := map[string]bool{}
	for seed := 0; seed < 100; seed++ {
		var ks []string
		Run(Config{Seed: uint64(seed), MapMode: 3}, func() { ks = MapKeys(m) })
		seen[fmt.Sprint(ks)] = true
	}
	if len(seen) < 15 {
		t.Fatalf("%d", len(seen))
	}
	if got := fmt.Sprint(MapKeys(m)); got != "[a b c d]" {
		t.Fatal(got)
	}
}

func TestLeakKill(t *testing.T) {
	for i := 0; i < 1000; i++ {
		o := Run(Config{Seed: uint64(i), Strategy: Strategy{Kind: StratUniform}}, func() {
			c := MakeChan[int](0, "c")
			for k := 0; k < 5; k++ {
				Go("leak", func() { c.Recv() })
			}
		})
		if o.Kind != Returned || o.Leaked != 5 {
			t.Fatalf("%+v", o)
		}
	}
}

// A goroutine that is still alive when the root returns must not get anything done afterwards,
// not even through its deferred calls (the process has exited).
func TestNoEffectsAfterRootReturns(t *testing.T) {
	if RaceBuild {
		t.Skip("the probe variable is deliberately shared without synchronisation")
	}
	lateSeen := false
	for seed := 0; seed < 300; seed++ {
		ended, late := false, 0
		o := Run(Config{Seed: uint64(seed), Strategy: Strategy{Kind: StratUniform}}, func() {
			done := MakeChan[bool](0, "done")
			Go("writer", func() {
				defer func() {
					Yield("late write")
					if ended {
						late++
					}
				}()
				done.Send(true)
				Yield("flush")
				if ended {
					late++
				}
			})
			done.Recv()
			ended = true
		})
		if o.Kind != Returned {
			t.Fatal(o.Kind)
		}
		if late > 0 {
			t.Fatalf("seed %d: %d effects after the run had ended", seed, late)
		}
		if o.Leaked > 0 {
			lateSeen = true
		}
	}
	if !lateSeen {
		t.Fatal("no schedule left the goroutine alive at return: the test does not exercise the kill path")
	}
}

// A polling loop (select with default) must not starve the rest of the program under any strategy.
func TestPollingLoopMakesProgress(t *testing.T) {
	for kind := 0; kind < 5; kind++ {
		got := 0
		o := Run(Config{Seed: 7, Strategy: Strategy{Kind: kind, SwitchP: 0.01, Depth: 1, Horizon: 10}, MaxSteps: 200000}, func() {
			c := MakeChan[int](0, "c")
			Go("producer", func() { c.Send(42) })
			for got == 0 {
				var v int
				if Select(c.RecvCase(&v, nil), Default()) == 0 {
					got = v
				}
			}
		})
		if o.Kind != Returned || got != 42 {
			t.Fatalf("strategy %d: %v got=%d steps=%d", kind, o.Kind, got, o.Steps)
		}
	}
}
