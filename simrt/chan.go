package simrt

import (
	"fmt"
	"runtime"
)

// chanCore is the untyped part of a simulated channel.
type chanCore struct {
	id     int
	cap    int
	n      int
	head   int
	closed bool
	isErr  bool
	site   string
	elem   string
	hb     []int64 // per-slot sync addresses (cap>0), as the Go runtime does
	hbc    int64   // close
	ophash uint64
	nsent  int
}

// Chan is a simulated `chan T`. A nil *Chan[T] behaves as a nil channel.
type Chan[T any] struct {
	chanCore
	buf []T
}

type sendSlot[T any] struct{ v T }
type recvSlot[T any] struct {
	v  T
	ok bool
}

type runtimeError string

func (e runtimeError) Error() string { return string(e) }
func (e runtimeError) RuntimeError() {}

// MakeChan is make(chan T, n); site is the source position of the make.
//
//go:norace
func MakeChan[T any](n int, site string) *Chan[T] {
	if n < 0 {
		panic(runtimeError("makechan: size out of range"))
	}
	s := sim()
	c := &Chan[T]{}
	c.cap = n
	c.site = site
	var z T
	_, c.isErr = interface{}(&z).(*error)
	c.elem = fmt.Sprintf("chan %T", z)
	if c.isErr {
		c.elem = "chan error"
	}
	if n > 0 {
		c.buf = make([]T, n)
		if RaceBuild {
			c.hb = make([]int64, n)
		}
	}
	c.id = len(s.chans)
	if len(s.chans) < maxG {
		s.chans = append(s.chans, &c.chanCore)
	}
	return c
}

//go:norace
func (c *Chan[T]) Zero() (z T) { return }

//go:norace
func (c *Chan[T]) Len() int {
	if c == nil {
		return 0
	}
	return c.n
}

//go:norace
func (c *Chan[T]) Cap() int {
	if c == nil {
		return 0
	}
	return c.cap
}

//go:norace
func (c *Chan[T]) core() *chanCore {
	if c == nil {
		return nil
	}
	return &c.chanCore
}

// hasPending reports whether some goroutine other than self has declared a
// receive (wantRecv) or send on c, alone or as a select case.
//
//go:norace
func (s *Sim) hasPending(c *chanCore, self *G, wantRecv bool) bool {
	for _, g := range s.gs {
		if g == self || g.done || g.completed {
			continue
		}
		switch g.op {
		case opRecv:
			if wantRecv && g.cc == c {
				return true
			}
		case opSend:
			if !wantRecv && g.cc == c {
				return true
			}
		case opSelect:
			for _, cs := range g.sel {
				if cs.chanCore() == c && cs.isRecv() == wantRecv && !cs.isDefault() {
					return true
				}
			}
		}
	}
	return false
}

//go:norace
func (s *Sim) sendReady(c *chanCore, self *G) bool {
	if c == nil {
		return false
	}
	if c.closed {
		return true
	}
	if c.cap > 0 {
		return c.n < c.cap
	}
	return s.hasPending(c, self, true)
}

//go:norace
func (s *Sim) recvReady(c *chanCore, self *G) bool {
	if c == nil {
		return false
	}
	if c.n > 0 || c.closed {
		return true
	}
	if c.cap > 0 {
		return false
	}
	return s.hasPending(c, self, false)
}

// choosePartner picks a declared counterpart for an unbuffered rendezvous.
//
//go:norace
func (s *Sim) choosePartner(c *chanCore, self *G, wantRecv bool) partner {
	p := s.pbuf[:0]
	for _, g := range s.gs {
		if g == self || g.done || g.completed {
			continue
		}
		switch g.op {
		case opRecv:
			if wantRecv && g.cc == c {
				p = append(p, partner{g, -1})
			}
		case opSend:
			if !wantRecv && g.cc == c {
				p = append(p, partner{g, -1})
			}
		case opSelect:
			for i, cs := range g.sel {
				if cs.chanCore() == c && cs.isRecv() == wantRecv && !cs.isDefault() {
					p = append(p, partner{g, i})
				}
			}
		}
	}
	if len(p) == 0 {
		panic("simrt: internal error: rendezvous without partner")
	}
	if len(p) > 1 {
		s.stats.PartnerChoices++
	}
	return p[s.choose(len(p))]
}

//go:norace
func (s *Sim) blockForever(g *G, what string) {
	g.op, g.what, g.cc = opNever, what, nil
	runtime.Callers(3, g.pc[:])
	s.park(g)
	panic("simrt: internal error: woke from block-forever")
}

// Send is `c <- v`.
//
//go:norace
func (c *Chan[T]) Send(v T) {
	s := sim()
	g := s.cur
	if c == nil {
		s.blockForever(g, "send on nil chan")
	}
	slot := &sendSlot[T]{v: v}
	g.op, g.cc, g.slot, g.completed, g.what = opSend, &c.chanCore, slot, false, ""
	runtime.Callers(2, g.pc[:])
	if c.cap > 0 && c.n == c.cap && !c.closed {
		s.stats.SenderBlockedFull++
	}
	raceRelease(&g.declSync)
	s.park(g)
	g.op, g.cc, g.slot = opNone, nil, nil
	if g.completed {
		g.completed = false
		raceAcquire(&g.wakeSync)
		return
	}
	c.execSend(s, g, v)
}

//go:norace
func (c *Chan[T]) execSend(s *Sim, g *G, v T) {
	if c.closed {
		panic(runtimeError("send on closed channel"))
	}
	c.nsent++
	if s.cfg.Tap != nil {
		s.cfg.Tap(c.site, v)
	}
	if c.cap > 0 {
		tail := (c.head + c.n) % c.cap
		if RaceBuild {
			raceAcquire(&c.hb[tail])
			raceRelease(&c.hb[tail])
		}
		// A declared receiver on an empty buffer is, in a real execution, either parked in the
		// receive queue (the runtime then hands the value to it directly, completing its receive
		// or select) or has not reached the operation yet (the value is buffered). Both are
		// legal; the decision stream picks, and the baseline policy is the direct hand-off.
		if c.n == 0 && s.hasPending(&c.chanCore, g, true) && s.choose(2) == 0 {
			p := s.choosePartner(&c.chanCore, g, true)
			c.deliver(p, v)
			// the value conceptually passes through slot `tail`: rotate the ring as the Go runtime
			// does, and let the receiver issue the slot's acquire/release when it resumes, so that
			// "the k-th receive happens before the (k+cap)-th send completes" still holds
			if RaceBuild {
				p.g.hbSlot = &c.hb[tail]
			}
			c.head = (c.head + 1) % c.cap
			raceRelease(&p.g.wakeSync)
			return
		}
		c.buf[tail] = v
		c.n++
		return
	}
	p := s.choosePartner(&c.chanCore, g, true)
	c.deliver(p, v)
	raceAcquire(&p.g.declSync)
	raceRelease(&p.g.wakeSync)
}

// deliver completes the declared receive (or select receive case) p with value v.
//
//go:norace
func (c *Chan[T]) deliver(p partner, v T) {
	r := p.g
	if p.ci < 0 {
		rs := r.slot.(*recvSlot[T])
		rs.v, rs.ok = v, true
	} else {
		rc := r.sel[p.ci].(*recvCase[T])
		if rc.dst != nil {
			*rc.dst = v
		}
		if rc.okp != nil {
			*rc.okp = true
		}
		r.fired = p.ci
	}
	r.completed = true
}

// Recv is `<-c`.
//
//go:norace
func (c *Chan[T]) Recv() T {
	v, _ := c.recv()
	return v
}

// Recv2 is `v, ok := <-c`.
//
//go:norace
func (c *Chan[T]) Recv2() (T, bool) { return c.recv() }

//go:norace
func (c *Chan[T]) recv() (T, bool) {
	s := sim()
	g := s.cur
	if c == nil {
		s.blockForever(g, "recv on nil chan")
	}
	slot := &recvSlot[T]{}
	g.op, g.cc, g.slot, g.completed, g.what = opRecv, &c.chanCore, slot, false, ""
	runtime.Callers(3, g.pc[:])
	raceRelease(&g.declSync)
	s.park(g)
	g.op, g.cc, g.slot = opNone, nil, nil
	if g.completed {
		g.completed = false
		raceAcquire(&g.wakeSync)
		g.slotSync()
		return slot.v, slot.ok
	}
	return c.execRecv(s, g)
}

//go:norace
func (c *Chan[T]) execRecv(s *Sim, g *G) (v T, ok bool) {
	if c.n > 0 {
		if RaceBuild {
			raceAcquire(&c.hb[c.head])
			raceRelease(&c.hb[c.head])
		}
		v = c.buf[c.head]
		var z T
		c.buf[c.head] = z
		c.head = (c.head + 1) % c.cap
		c.n--
		return v, true
	}
	if c.closed {
		raceAcquire(&c.hbc)
		s.stats.RecvOnClosed++
		return v, false
	}
	p := s.choosePartner(&c.chanCore, g, false)
	w := p.g
	if p.ci < 0 {
		v = w.slot.(*sendSlot[T]).v
	} else {
		v = w.sel[p.ci].(*sendCase[T]).v
		w.fired = p.ci
	}
	c.nsent++
	if s.cfg.Tap != nil {
		s.cfg.Tap(c.site, v)
	}
	w.completed = true
	raceAcquire(&w.declSync)
	raceRelease(&w.wakeSync)
	return v, true
}

// Close is close(c).
//
//go:norace
func (c *Chan[T]) Close() {
	s := sim()
	g := s.cur
	g.op, g.what, g.cc = opYield, "close", c.core()
	runtime.Callers(2, g.pc[:])
	s.park(g)
	g.op, g.what, g.cc = opNone, "", nil
	if c == nil {
		panic(runtimeError("close of nil channel"))
	}
	if c.closed {
		panic(runtimeError("close of closed channel"))
	}
	raceReleaseMerge(&c.hbc)
	c.closed = true
	// probe: receivers parked on this channel with nothing queued will see the close
	if c.n == 0 && s.hasPending(&c.chanCore, g, true) {
		s.stats.WorkerIdleAtClose++
	}
}

// Case is one communication clause of a select.
type Case interface {
	chanCore() *chanCore
	isRecv() bool
	isDefault() bool
	ready(s *Sim, g *G) bool
	exec(s *Sim, g *G)
	errChan() bool
	describe() string
}

type recvCase[T any] struct {
	c   *Chan[T]
	dst *T
	okp *bool
}

type sendCase[T any] struct {
	c *Chan[T]
	v T
}

type defaultCase struct{}

// RecvCase is `case *dst, *okp = <-c` (either pointer may be nil).
//
//go:norace
func (c *Chan[T]) RecvCase(dst *T, okp *bool) Case { return &recvCase[T]{c, dst, okp} }

// SendCase is `case c <- v`.
//
//go:norace
func (c *Chan[T]) SendCase(v T) Case { return &sendCase[T]{c, v} }

// Default is the default clause.
//
//go:norace
func Default() Case { return defaultCase{} }

//go:norace
func (r *recvCase[T]) chanCore() *chanCore { return r.c.core() }

//go:norace
func (r *recvCase[T]) isRecv() bool { return true }

//go:norace
func (r *recvCase[T]) isDefault() bool { return false }

//go:norace
func (r *recvCase[T]) ready(s *Sim, g *G) bool { return s.recvReady(r.c.core(), g) }

//go:norace
func (r *recvCase[T]) errChan() bool { return r.c != nil && r.c.isErr }

//go:norace
func (r *recvCase[T]) describe() string {
	if r.c == nil {
		return "recv nil"
	}
	return "recv " + r.c.elem
}

//go:norace
func (r *recvCase[T]) exec(s *Sim, g *G) {
	v, ok := r.c.execRecv(s, g)
	if r.dst != nil {
		*r.dst = v
	}
	if r.okp != nil {
		*r.okp = ok
	}
}

//go:norace
func (x *sendCase[T]) chanCore() *chanCore { return x.c.core() }

//go:norace
func (x *sendCase[T]) isRecv() bool { return false }

//go:norace
func (x *sendCase[T]) isDefault() bool { return false }

//go:norace
func (x *sendCase[T]) ready(s *Sim, g *G) bool { return s.sendReady(x.c.core(), g) }

//go:norace
func (x *sendCase[T]) errChan() bool { return false }

//go:norace
func (x *sendCase[T]) describe() string {
	if x.c == nil {
		return "send nil"
	}
	return "send " + x.c.elem
}

//go:norace
func (x *sendCase[T]) exec(s *Sim, g *G) { x.c.execSend(s, g, x.v) }

//go:norace
func (defaultCase) chanCore() *chanCore { return nil }

//go:norace
func (defaultCase) isRecv() bool { return false }

//go:norace
func (defaultCase) isDefault() bool { return true }

//go:norace
func (defaultCase) ready(s *Sim, g *G) bool { return true }

//go:norace
func (defaultCase) exec(s *Sim, g *G) {}

//go:norace
func (defaultCase) errChan() bool { return false }

//go:norace
func (defaultCase) describe() string { return "default" }

// Select executes a select statement and returns the index of the clause that ran.
//
//go:norace
func Select(cases ...Case) int {
	s := sim()
	g := s.cur
	if len(cases) == 0 {
		s.blockForever(g, "select {}")
	}
	g.op, g.sel, g.completed, g.fired, g.what, g.cc = opSelect, cases, false, -1, "", nil
	runtime.Callers(2, g.pc[:])
	raceRelease(&g.declSync)
	s.park(g)
	g.op, g.sel = opNone, nil
	if g.completed {
		g.completed = false
		raceAcquire(&g.wakeSync)
		g.slotSync()
		return g.fired
	}
	// collect the ready non-default cases in source order
	var rd [16]int
	n := 0
	def := -1
	errReady := false
	for i, cs := range cases {
		if cs.isDefault() {
			def = i
			continue
		}
		if cs.ready(s, g) && n < len(rd) {
			rd[n] = i
			n++
			if cs.errChan() {
				errReady = true
			}
		}
	}
	if n == 0 {
		if def < 0 {
			panic("simrt: internal error: select scheduled with nothing ready")
		}
		return def
	}
	k := 0
	if n > 1 {
		s.stats.SelectMultiReady++
		if errReady {
			s.stats.ErrAndOtherReady++
		}
		k = s.choose(n)
		if k != 0 {
			s.stats.SelectNonFirst++
		}
	}
	i := rd[k]
	cases[i].exec(s, g)
	return i
}

// slotSync: a receive completed by a direct hand-off on a buffered channel still synchronises on the slot.
//
//go:norace
func (g *G) slotSync() {
	if g.hbSlot != nil {
		raceAcquire(g.hbSlot)
		raceRelease(g.hbSlot)
		g.hbSlot = nil
	}
}
