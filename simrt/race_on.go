//go:build race

package simrt

import (
	"runtime"
	"unsafe"
)

// RaceBuild reports whether this binary was built with -race.
const RaceBuild = true

//go:norace
func raceDisable() { runtime.RaceDisable() }

//go:norace
func raceEnable() { runtime.RaceEnable() }

//go:norace
func raceAcquire(p *int64) { runtime.RaceAcquire(unsafe.Pointer(p)) }

//go:norace
func raceRelease(p *int64) { runtime.RaceRelease(unsafe.Pointer(p)) }

//go:norace
func raceReleaseMerge(p *int64) { runtime.RaceReleaseMerge(unsafe.Pointer(p)) }

//go:norace
func raceAcquireAddr(p unsafe.Pointer) { runtime.RaceAcquire(p) }

//go:norace
func raceReleaseMergeAddr(p unsafe.Pointer) { runtime.RaceReleaseMerge(p) }
