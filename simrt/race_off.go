//go:build !race

package simrt

import "unsafe"

// RaceBuild reports whether this binary was built with -race.
const RaceBuild = false

func raceDisable()                          {}
func raceEnable()                           {}
func raceAcquire(p *int64)                  {}
func raceRelease(p *int64)                  {}
func raceReleaseMerge(p *int64)             {}
func raceAcquireAddr(p unsafe.Pointer)      {}
func raceReleaseMergeAddr(p unsafe.Pointer) {}
