//go:build !race

package simrt

// RaceBuild reports whether this binary was built with -race.
const RaceBuild = false

func raceDisable()              {}
func raceEnable()               {}
func raceAcquire(p *int64)      {}
func raceRelease(p *int64)      {}
func raceReleaseMerge(p *int64) {}
