// Package simrt is a deterministic runtime for Go concurrency primitives.
//
// Source transformed by /verif/simgen calls this package instead of using
// channels, select, go statements, sync.WaitGroup, map iteration order,
// runtime.NumCPU and a few os entry points. Exactly one simulated goroutine
// runs at any time; before every visible operation the running goroutine
// declares the operation and calls the scheduler, which computes the set of
// enabled goroutines and lets a decision stream choose which one proceeds.
// One decision list therefore is one exactly repeatable execution.
//
// Style constraint (see DESIGN.md §3.2): everything that touches state shared
// between simulated goroutines is a //go:norace function or method, uses no
// function literals, no maps and no growing slices, so that a -race build
// reports races in the code under simulation only, ordered by the
// happens-before edges this package issues explicitly.
package simrt

import (
	"fmt"
	"runtime"
	"runtime/debug"
	"strings"
)

type opKind uint8

const (
	opNone opKind = iota
	opStart
	opYield
	opSend
	opRecv
	opSelect
	opWait
	opLock
	opRLock
	opNever
	opSleep
)

var opNames = [...]string{"none", "start", "yield", "send", "recv", "select", "wg.Wait", "lock", "rlock", "block-forever", "sleep"}

// G is one simulated goroutine.
type G struct {
	id        int
	site      string
	wake      chan struct{}
	exitc     chan struct{}
	done      bool
	started   bool
	op        opKind
	what      string
	cc        *chanCore
	slot      interface{}
	completed bool
	sel       []Case
	fired     int
	wg        *WaitGroup
	mu        *Mutex
	rw        *RWMutex
	until     int64
	prio      int64
	starved   bool
	pc        [1]uintptr
	declSync  int64
	wakeSync  int64
	hbSlot    *int64
	nops      int
}

// OutcomeKind classifies how a simulated run ended.
type OutcomeKind int

const (
	Returned OutcomeKind = iota
	Panicked
	Deadlocked
	StepLimit
)

func (k OutcomeKind) String() string {
	switch k {
	case Returned:
		return "returned"
	case Panicked:
		return "panicked"
	case Deadlocked:
		return "deadlocked"
	case StepLimit:
		return "step-limit"
	}
	return "?"
}

// Blocked describes one goroutine that had not finished when a run ended.
type Blocked struct {
	ID   int
	Site string
	Op   string
	Func string
}

// Stats are reach probes counted by the runtime itself.
type Stats struct {
	SelectMultiReady  int // a select was executed with >= 2 ready cases
	SelectNonFirst    int // ... and a case other than the first ready one was taken
	ErrAndOtherReady  int // ... and one of the ready cases receives from a chan error
	SenderBlockedFull int // a send was declared on a full buffered channel
	Preemptions       int // scheduler chose another goroutine although the current one was enabled
	MapPermuted       int // a map iteration order other than sorted was produced
	PartnerChoices    int // a rendezvous had >= 2 possible partners
	MaxEnabled        int
	Spawned           int
	WorkerIdleAtClose int
	DecisionsNonZero  int
	RecvOnClosed      int
}

// Outcome is the result of one simulated run.
type Outcome struct {
	Kind       OutcomeKind
	PanicValue string
	PanicStack string
	PanicSite  string
	Blocked    []Blocked
	Steps      int
	Decisions  []int32
	Arity      []int32
	Trace      uint64
	Partial    uint64
	Goroutines int
	Leaked     int
	Diverged   bool
	Stats      Stats
}

// Signature is a schedule-independent description of a deadlock or panic.
func (o *Outcome) Signature() string {
	switch o.Kind {
	case Deadlocked:
		parts := make([]string, 0, len(o.Blocked))
		for _, b := range o.Blocked {
			parts = append(parts, shortFunc(b.Func)+":"+b.Op)
		}
		sortStrings(parts)
		parts = uniqStrings(parts)
		return "deadlock{" + strings.Join(parts, ";") + "}"
	case Panicked:
		v := o.PanicValue
		if i := strings.IndexByte(v, '\n'); i >= 0 {
			v = v[:i]
		}
		return "panic{" + shortFunc(panicFunc(o.PanicStack)) + ":" + stripNumbers(v) + "}"
	case StepLimit:
		return "step-limit"
	}
	return "returned"
}

const (
	StratP0 = iota
	StratUniform
	StratSticky
	StratPCT
	StratStarve
)

// Strategy selects how fresh decisions are produced when no replay list is given.
type Strategy struct {
	Kind       int
	SwitchP    float64 // sticky: probability of leaving an enabled current goroutine
	Depth      int     // PCT: number of priority change points
	Horizon    int     // PCT: change points are drawn from [1,Horizon]
	StarveMask uint64  // starve: goroutine ids (mod 64) never chosen while another is enabled
	SelectRand bool    // choose uniformly among ready select cases / partners / chunk sizes (else first)
}

// Config describes one run.
type Config struct {
	Seed        uint64
	Strategy    Strategy
	Replay      []int32 // non-nil: decisions are taken from this list (beyond its end: 0)
	ReplayArity []int32 // optional, same length: arity recorded with each decision
	MaxSteps    int
	NumCPU      int
	// MaxProcs is what runtime.GOMAXPROCS(0) reports when the run starts: 0 means NumCPU; it differs from NumCPU
	// under a GOMAXPROCS environment variable or (Go >= 1.25) a container CPU quota
	MaxProcs int
	MapMode     int // 0 sorted, 1 reversed, 2 rotate (decision), 3 shuffle (decisions)
	FS          FS
	Tap         func(site string, v interface{})
	Trace       *strings.Builder
	Implicit    bool
}

const (
	maxG   = 4096
	maxDec = 1 << 18
)

// Sim is the state of one run.
type Sim struct {
	cfg      Config
	gs       []*G
	cur      *G
	root     *G
	rng      uint64
	steps    int
	maxSteps int
	killed   bool
	abort    *Outcome
	aborted  bool
	trace    uint64
	dec      []int32
	arity    []int32
	rpos     int
	diverged bool
	stats    Stats
	cand     []*G
	pbuf     []partner
	epoch    int64
	changeAt [8]int
	nchange  int
	lowPrio  int64
	now      int64
	nchan    int
	chans    []*chanCore
	implicit bool
	overflow bool
	sameRun  int
}

type partner struct {
	g  *G
	ci int
}

type simAbort struct{}

// S is the active simulation (nil outside Run unless implicit mode started one).
var S *Sim

var arenaDec, arenaArity []int32
var arenaGs, arenaCand []*G
var arenaP []partner
var arenaChans []*chanCore

//go:norace
func splitmix(x *uint64) uint64 {
	*x += 0x9e3779b97f4a7c15
	z := *x
	z = (z ^ (z >> 30)) * 0xbf58476d1ce4e5b9
	z = (z ^ (z >> 27)) * 0x94d049bb133111eb
	return z ^ (z >> 31)
}

//go:norace
func (s *Sim) rnd(n int) int {
	if n <= 1 {
		return 0
	}
	return int(splitmix(&s.rng) % uint64(n))
}

//go:norace
func (s *Sim) rndf() float64 { return float64(splitmix(&s.rng)>>11) / float64(1<<53) }

//go:norace
func newSim(cfg Config) *Sim {
	if arenaDec == nil {
		arenaDec = make([]int32, maxDec)
		arenaArity = make([]int32, maxDec)
		arenaGs = make([]*G, maxG)
		arenaCand = make([]*G, maxG)
		arenaP = make([]partner, maxG)
		arenaChans = make([]*chanCore, maxG)
	}
	resetPools()
	resetPackages()
	s := &Sim{cfg: cfg, rng: cfg.Seed ^ 0x5851f42d4c957f2d, maxSteps: cfg.MaxSteps}
	if s.maxSteps <= 0 {
		s.maxSteps = 1 << 20
	}
	if s.cfg.NumCPU <= 0 {
		s.cfg.NumCPU = 1
	}
	s.dec, s.arity = arenaDec[:0], arenaArity[:0]
	s.gs, s.cand, s.pbuf, s.chans = arenaGs[:0], arenaCand[:0], arenaP[:0], arenaChans[:0]
	s.lowPrio = -1
	st := &s.cfg.Strategy
	if st.Kind == StratPCT {
		h := st.Horizon
		if h < 4 {
			h = 64
		}
		d := st.Depth
		if d > len(s.changeAt) {
			d = len(s.changeAt)
		}
		for i := 0; i < d; i++ {
			s.changeAt[i] = 1 + s.rnd(h)
		}
		s.nchange = d
	}
	root := &G{id: 0, site: "root", wake: make(chan struct{}, 1), started: true}
	root.prio = int64(splitmix(&s.rng) >> 2)
	s.gs = append(s.gs, root)
	s.cur, s.root = root, root
	return s
}

// Run executes f as the root goroutine of a fresh simulation and returns how it ended.
// Only one Run may be active in a process at a time.
func Run(cfg Config, f func()) (out Outcome) {
	if S != nil && !S.implicit {
		panic("simrt: nested Run")
	}
	s := newSim(cfg)
	S = s
	defer s.finish(&out)
	f()
	out.Kind = Returned
	return
}

//go:norace
func (s *Sim) finish(out *Outcome) {
	r := recover()
	if r != nil {
		if _, ok := r.(simAbort); ok && s.abort != nil {
			*out = *s.abort
		} else {
			*out = Outcome{Kind: Panicked, PanicValue: fmt.Sprint(r), PanicStack: string(debug.Stack()), PanicSite: "root"}
		}
	}
	s.aborted = true
	leaked := 0
	for _, g := range s.gs[1:] {
		if !g.done {
			leaked++
		}
	}
	if out.Kind != Returned && out.Kind != Panicked || true {
		// blocked list is useful for every kind (leaks on error paths)
		if out.Blocked == nil && out.Kind == Deadlocked {
			out.Blocked = s.blocked()
		}
	}
	// kill everything still parked, one at a time
	s.killed = true
	for _, g := range s.gs[1:] {
		if g.done {
			continue
		}
		// deferred calls of the dying goroutine may reach simulated operations: they must see
		// themselves as the current goroutine (and then exit at once, writing nothing: the process is gone)
		s.cur = g
		raceDisable()
		g.wake <- struct{}{}
		<-g.exitc
		raceEnable()
	}
	s.cur = s.root
	raceAcquire(&s.epoch)
	out.Steps = s.steps
	out.Decisions = append([]int32(nil), s.dec...)
	out.Arity = append([]int32(nil), s.arity...)
	out.Trace = s.trace
	out.Partial = s.partialHash()
	out.Goroutines = len(s.gs)
	out.Leaked = leaked
	out.Diverged = s.diverged
	out.Stats = s.stats
	out.Stats.Spawned = len(s.gs) - 1
	if s.overflow && out.Kind == Returned {
		out.Kind = StepLimit
	}
	for i := range s.gs {
		s.gs[i] = nil
	}
	for i := range s.chans {
		s.chans[i] = nil
	}
	S = nil
}

//go:norace
func (s *Sim) partialHash() uint64 {
	var h uint64
	for _, c := range s.chans {
		h += c.ophash * 0x9e3779b97f4a7c15
		h ^= h >> 29
	}
	return h
}

//go:norace
func (s *Sim) blocked() []Blocked {
	var bl []Blocked
	for _, g := range s.gs {
		if g.done {
			continue
		}
		fn := ""
		if g.pc[0] != 0 {
			if f := runtime.FuncForPC(g.pc[0] - 1); f != nil {
				fn = f.Name()
			}
		}
		what := opNames[g.op]
		if g.what != "" {
			what = g.what
		}
		if g.cc != nil && (g.op == opSend || g.op == opRecv) {
			what += " " + g.cc.elem
		}
		if g.op == opSelect {
			what += "("
			for i, c := range g.sel {
				if i > 0 {
					what += ","
				}
				what += c.describe()
			}
			what += ")"
		}
		bl = append(bl, Blocked{ID: g.id, Site: g.site, Op: what, Func: fn})
	}
	return bl
}

// sim returns the active simulation, starting an implicit one (root = caller)
// when transformed code runs outside Run, e.g. under the repository's own tests.
//
//go:norace
func sim() *Sim {
	if S == nil {
		cfg := implicitConfig()
		s := newSim(cfg)
		s.implicit = true
		S = s
	}
	return S
}

//go:norace
func (s *Sim) enabled(g *G) bool {
	switch g.op {
	case opStart, opYield:
		return true
	case opSend:
		return g.completed || s.sendReady(g.cc, g)
	case opRecv:
		return g.completed || s.recvReady(g.cc, g)
	case opSelect:
		if g.completed {
			return true
		}
		for _, c := range g.sel {
			if c.ready(s, g) {
				return true
			}
		}
		return false
	case opWait:
		return g.wg.n == 0
	case opLock:
		if g.mu != nil {
			return !g.mu.locked
		}
		return !g.rw.w && g.rw.r == 0
	case opRLock:
		return !g.rw.w
	case opSleep:
		return true
	}
	return false
}

// pick chooses the next goroutine to run; me may be done. nil means nothing is enabled.
//
//go:norace
func (s *Sim) pick(me *G) *G {
	cand := s.cand[:0]
	if me != nil && !me.done && me.op != opSleep && s.enabled(me) {
		cand = append(cand, me)
	} else {
		me = nil
	}
	sleepers := false
	for _, g := range s.gs {
		if g == me || g.done {
			continue
		}
		if g.op == opSleep {
			sleepers = true
			continue
		}
		if s.enabled(g) {
			cand = append(cand, g)
		}
	}
	if len(cand) == 0 && sleepers {
		// discrete-event clock: nothing is runnable, so time jumps to the earliest timer
		var min int64 = -1
		for _, g := range s.gs {
			if !g.done && g.op == opSleep && (min < 0 || g.until < min) {
				min = g.until
			}
		}
		for _, g := range s.gs {
			if !g.done && g.op == opSleep && g.until == min {
				cand = append(cand, g)
			}
		}
	}
	n := len(cand)
	if n == 0 {
		return nil
	}
	if n > s.stats.MaxEnabled {
		s.stats.MaxEnabled = n
	}
	idx := 0
	if n > 1 {
		idx = s.decide(n, s.schedChoice(cand, me))
	}
	nx := cand[idx]
	if me != nil && nx != me {
		s.stats.Preemptions++
	}
	if nx.op == opSleep && nx.until > s.now {
		s.now = nx.until
	}
	var cid uint64
	if nx.cc != nil {
		cid = uint64(nx.cc.id)
		nx.cc.ophash = nx.cc.ophash*1099511628211 + uint64(nx.id)*16 + uint64(nx.op)
	}
	s.trace = (s.trace ^ (uint64(nx.id)<<8 | uint64(nx.op) | cid<<24)) * 1099511628211
	if s.cfg.Trace != nil {
		fmt.Fprintf(s.cfg.Trace, "%d g%d %s %s en=%d\n", s.steps, nx.id, opNames[nx.op], nx.what, n)
	}
	return nx
}

// schedChoice returns the strategy's fresh choice (an index into cand).
//
//go:norace
func (s *Sim) schedChoice(cand []*G, me *G) int {
	if s.cfg.Replay != nil {
		return 0
	}
	st := &s.cfg.Strategy
	n := len(cand)
	// bounded unfairness: a goroutine that keeps running without ever blocking (a polling loop with
	// a default case) is preempted after 2000 consecutive operations, whatever the strategy, so that
	// such code makes progress instead of exhausting the step budget
	if me != nil && cand[0] == me {
		s.sameRun++
		if s.sameRun > 2000 && n > 1 {
			s.sameRun = 0
			return 1 + s.rnd(n-1)
		}
	} else {
		s.sameRun = 0
	}
	switch st.Kind {
	case StratUniform:
		return s.rnd(n)
	case StratSticky:
		if me != nil && s.rndf() >= st.SwitchP {
			return 0
		}
		return s.rnd(n)
	case StratPCT:
		for i := 0; i < s.nchange; i++ {
			if s.changeAt[i] == s.steps && me != nil {
				me.prio = s.lowPrio
				s.lowPrio--
			}
		}
		best := 0
		for i, g := range cand {
			if g.prio > cand[best].prio {
				best = i
			}
		}
		return best
	case StratStarve:
		// uniform over the non-starved, unless only starved ones are enabled
		k := 0
		for _, g := range cand {
			if !g.starved {
				k++
			}
		}
		if k == 0 {
			return s.rnd(n)
		}
		if me != nil && !me.starved && s.rndf() >= st.SwitchP {
			return 0
		}
		j := s.rnd(k)
		for i, g := range cand {
			if !g.starved {
				if j == 0 {
					return i
				}
				j--
			}
		}
	}
	return 0
}

// decide records one decision of arity n; fresh is the value to use when not replaying.
//
//go:norace
func (s *Sim) decide(n int, fresh int) int {
	v := fresh
	if s.cfg.Replay != nil {
		v = 0
		if s.rpos < len(s.cfg.Replay) {
			v = int(s.cfg.Replay[s.rpos])
			if s.cfg.ReplayArity != nil && s.rpos < len(s.cfg.ReplayArity) && int(s.cfg.ReplayArity[s.rpos]) != n {
				s.diverged = true
			}
			if v >= n || v < 0 {
				s.diverged = true
				v = ((v % n) + n) % n
			}
		}
		s.rpos++
	}
	if s.implicit {
		return v
	}
	if len(s.dec) < maxDec {
		s.dec = append(s.dec, int32(v))
		s.arity = append(s.arity, int32(n))
	} else {
		s.overflow = true
	}
	if v != 0 {
		s.stats.DecisionsNonZero++
	}
	return v
}

// choose is a non-scheduling decision (select case, partner, map order, chunk size).
//
//go:norace
func (s *Sim) choose(n int) int {
	if n <= 1 {
		return 0
	}
	fresh := 0
	if s.cfg.Replay == nil && s.cfg.Strategy.SelectRand {
		fresh = s.rnd(n)
	}
	return s.decide(n, fresh)
}

// Choose lets the harness' simulated I/O draw from the run's decision stream.
//
//go:norace
func Choose(n int) int {
	if S == nil {
		return 0
	}
	return S.choose(n)
}

// park: g has declared its pending operation; returns when the scheduler has chosen g.
//
//go:norace
func (s *Sim) park(g *G) {
	if s.aborted || s.killed {
		s.afterEnd(g)
		return
	}
	s.steps++
	g.nops++
	if s.steps > s.maxSteps || s.overflow {
		s.fail(g, &Outcome{Kind: StepLimit})
	}
	nx := s.pick(g)
	if nx == nil {
		if s.implicit {
			panic("simrt (implicit mode): deadlock\n" + fmtBlocked(s.blocked()))
		}
		s.fail(g, &Outcome{Kind: Deadlocked, Blocked: s.blocked()})
	}
	if nx != g {
		s.switchTo(g, nx)
	}
}

// afterEnd handles operations attempted while the run is being torn down
// (deferred calls during unwinding of the root or of a killed goroutine).
//
//go:norace
func (s *Sim) afterEnd(g *G) {
	if s.killed && g != s.root {
		runtime.Goexit()
	}
	if s.abort != nil {
		panic(simAbort{})
	}
}

//go:norace
func (s *Sim) switchTo(g, nx *G) {
	s.cur = nx
	raceReleaseMerge(&s.epoch)
	raceDisable()
	nx.wake <- struct{}{}
	<-g.wake
	raceEnable()
	if s.killed {
		raceAcquire(&s.epoch)
		runtime.Goexit()
	}
	if s.abort != nil {
		panic(simAbort{})
	}
}

// fail ends the run from goroutine g with the given outcome; never returns.
//
//go:norace
func (s *Sim) fail(g *G, o *Outcome) {
	s.abort = o
	s.aborted = true
	if g == s.root {
		panic(simAbort{})
	}
	s.cur = s.root
	raceReleaseMerge(&s.epoch)
	raceDisable()
	s.root.wake <- struct{}{}
	<-g.wake
	raceEnable()
	raceAcquire(&s.epoch)
	runtime.Goexit()
}

//go:norace
func (s *Sim) callerPC(g *G) {
	runtime.Callers(3, g.pc[:])
}

// Yield is a visible operation with no effect on simulator state: the harness'
// simulated readers, writers and files call it so that I/O interleaves with
// everything else.
//
//go:norace
func Yield(what string) {
	s := S
	if s == nil {
		return
	}
	g := s.cur
	g.op, g.what, g.cc = opYield, what, nil
	runtime.Callers(2, g.pc[:])
	s.park(g)
	g.op, g.what = opNone, ""
}

// Go starts f as a new simulated goroutine.
//
//go:norace
func Go(site string, f func()) {
	s := sim()
	me := s.cur
	if len(s.gs) >= maxG {
		s.overflow = true
		s.fail(me, &Outcome{Kind: StepLimit})
	}
	g := &G{id: len(s.gs), site: site, wake: make(chan struct{}, 1), exitc: make(chan struct{}, 1), op: opStart}
	g.prio = int64(splitmix(&s.rng) >> 2)
	if s.cfg.Strategy.Kind == StratStarve && s.cfg.Strategy.StarveMask&(1<<(uint(g.id)%64)) != 0 {
		g.starved = true
	}
	s.gs = append(s.gs, g)
	go s.gmain(g, f)
	me.op, me.what, me.cc = opYield, "go", nil
	runtime.Callers(2, me.pc[:])
	s.park(me)
	me.op, me.what = opNone, ""
}

//go:norace
func (s *Sim) gmain(g *G, f func()) {
	raceDisable()
	<-g.wake
	raceEnable()
	if s.killed {
		raceDisable()
		g.exitc <- struct{}{}
		raceEnable()
		return
	}
	g.started = true
	g.op = opNone
	defer s.gexit(g)
	f()
}

//go:norace
func (s *Sim) gexit(g *G) {
	r := recover()
	if s.killed {
		raceDisable()
		g.exitc <- struct{}{}
		raceEnable()
		return
	}
	g.done = true
	g.op = opNone
	if r != nil {
		if s.implicit {
			panic(r)
		}
		s.abort = &Outcome{Kind: Panicked, PanicValue: fmt.Sprint(r), PanicStack: string(debug.Stack()), PanicSite: g.site}
		s.aborted = true
		s.cur = s.root
		raceReleaseMerge(&s.epoch)
		raceDisable()
		s.root.wake <- struct{}{}
		raceEnable()
		return
	}
	if s.aborted {
		return
	}
	s.steps++
	nx := s.pick(nil)
	if nx == nil {
		if s.implicit {
			// every simulated goroutine finished or is blocked while the test's own goroutine
			// (the implicit root) is the caller of the exiting one: cannot happen, root is parked
			panic("simrt (implicit mode): deadlock at goroutine exit\n" + fmtBlocked(s.blocked()))
		}
		s.abort = &Outcome{Kind: Deadlocked, Blocked: s.blocked()}
		s.aborted = true
		nx = s.root
	}
	s.cur = nx
	raceReleaseMerge(&s.epoch)
	raceDisable()
	nx.wake <- struct{}{}
	raceEnable()
}

// NumCPU is the simulated runtime.NumCPU.
//
//go:norace
func NumCPU() int {
	if S == nil {
		return implicitConfig().NumCPU
	}
	return S.cfg.NumCPU
}

// GOMAXPROCS is the simulated runtime.GOMAXPROCS: it reports the current setting (which need not equal
// NumCPU, see Config.MaxProcs) and changes it when n > 0. The simulator runs one goroutine at a time
// whatever the value; it matters to code that sizes worker pools or buffers from it.
//
//go:norace
func GOMAXPROCS(n int) int {
	if S == nil {
		return implicitConfig().NumCPU
	}
	prev := S.cfg.MaxProcs
	if prev <= 0 {
		prev = S.cfg.NumCPU
	}
	if n > 0 {
		S.cfg.MaxProcs = n
	}
	return prev
}

func fmtBlocked(bl []Blocked) string {
	var sb strings.Builder
	for _, b := range bl {
		fmt.Fprintf(&sb, "  g%d [%s] %s in %s\n", b.ID, b.Site, b.Op, b.Func)
	}
	return sb.String()
}

// FormatBlocked renders a blocked-goroutine dump.
func FormatBlocked(bl []Blocked) string { return fmtBlocked(bl) }

func shortFunc(f string) string {
	if i := strings.LastIndexByte(f, '/'); i >= 0 {
		f = f[i+1:]
	}
	// strip closure suffixes like .func1 and generic instantiation noise
	if i := strings.Index(f, "[..."); i >= 0 {
		f = f[:i]
	}
	return f
}

func panicFunc(stack string) string {
	// first frame after the runtime's panic frames that is not in runtime/ or simrt
	lines := strings.Split(stack, "\n")
	seenPanic := false
	for i := 0; i+1 < len(lines); i++ {
		l := lines[i]
		if strings.HasPrefix(l, "panic(") {
			seenPanic = true
			continue
		}
		if !seenPanic || strings.HasPrefix(l, "\t") || strings.HasPrefix(l, "goroutine ") || l == "" {
			continue
		}
		if strings.HasPrefix(l, "runtime.") || strings.HasPrefix(l, "runtime/") || strings.HasPrefix(l, "verif/simrt.") {
			continue
		}
		if j := strings.LastIndexByte(l, '('); j > 0 {
			l = l[:j]
		}
		return l
	}
	return "?"
}

func stripNumbers(s string) string {
	var sb strings.Builder
	prevDigit := false
	for _, r := range s {
		if r >= '0' && r <= '9' {
			if !prevDigit {
				sb.WriteByte('#')
			}
			prevDigit = true
			continue
		}
		prevDigit = false
		sb.WriteRune(r)
	}
	return sb.String()
}

func sortStrings(a []string) {
	for i := 1; i < len(a); i++ {
		for j := i; j > 0 && a[j] < a[j-1]; j-- {
			a[j], a[j-1] = a[j-1], a[j]
		}
	}
}

func uniqStrings(a []string) []string {
	out := a[:0]
	for i, s := range a {
		if i == 0 || s != a[i-1] {
			out = append(out, s)
		}
	}
	return out
}
