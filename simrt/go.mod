module verif/simrt

go 1.19
