package simrt

import (
	"fmt"
	"io"
	"os"
	"sort"
	"strconv"
)

// MapKeys returns the keys of m in the iteration order chosen for this run:
// sorted outside a simulation or in MapMode 0, otherwise permuted by the
// decision stream (reverse / rotation, which is what the Go runtime does for
// small maps / arbitrary shuffle).
func MapKeys[K comparable, V any](m map[K]V) []K {
	ks := make([]K, 0, len(m))
	for k := range m {
		ks = append(ks, k)
	}
	sortKeys(ks)
	s := S
	n := len(ks)
	if s == nil || n < 2 {
		return ks
	}
	switch s.cfg.MapMode {
	case 1:
		for i, j := 0, n-1; i < j; i, j = i+1, j-1 {
			ks[i], ks[j] = ks[j], ks[i]
		}
		s.mapPermuted()
	case 2:
		r := s.chooseMap(n)
		if r != 0 {
			out := make([]K, 0, n)
			out = append(out, ks[r:]...)
			out = append(out, ks[:r]...)
			ks = out
			s.mapPermuted()
		}
	case 3:
		moved := false
		for i := 0; i < n-1; i++ {
			j := i + s.chooseMap(n-i)
			if j != i {
				ks[i], ks[j] = ks[j], ks[i]
				moved = true
			}
		}
		if moved {
			s.mapPermuted()
		}
	}
	return ks
}

//go:norace
func (s *Sim) mapPermuted() { s.stats.MapPermuted++ }

// chooseMap draws a map-order decision; fresh values are always random in modes 2 and 3.
//
//go:norace
func (s *Sim) chooseMap(n int) int {
	if n <= 1 {
		return 0
	}
	fresh := 0
	if s.cfg.Replay == nil {
		fresh = s.rnd(n)
	}
	return s.decide(n, fresh)
}

func sortKeys[K comparable](ks []K) {
	switch x := interface{}(ks).(type) {
	case []string:
		sort.Strings(x)
	case []int:
		sort.Ints(x)
	default:
		sort.Slice(ks, func(i, j int) bool { return fmt.Sprintf("%#v", ks[i]) < fmt.Sprintf("%#v", ks[j]) })
	}
}

// FileImpl is what a simulated file does; the harness provides implementations
// that yield to the scheduler and inject faults.
type FileImpl interface {
	Read(p []byte) (int, error)
	Write(p []byte) (int, error)
	Close() error
}

// FS is the simulated part of package os.
type FS interface {
	Open(name string) (FileImpl, error)
	Create(name string) (FileImpl, error)
	OpenFile(name string, flag int, perm os.FileMode) (FileImpl, error)
	MkdirAll(path string, perm os.FileMode) error
	Stdin() FileImpl
	Stdout() FileImpl
	Stderr() FileImpl
}

// File stands in for *os.File in transformed code.
type File struct {
	name string
	impl FileImpl
}

func (f *File) Name() string { return f.name }
func (f *File) Read(p []byte) (int, error) {
	if f == nil || f.impl == nil {
		return 0, os.ErrInvalid
	}
	return f.impl.Read(p)
}
func (f *File) Write(p []byte) (int, error) {
	if f == nil || f.impl == nil {
		return 0, os.ErrInvalid
	}
	return f.impl.Write(p)
}
func (f *File) WriteString(s string) (int, error) { return f.Write([]byte(s)) }
func (f *File) Close() error {
	if f == nil || f.impl == nil {
		return os.ErrInvalid
	}
	return f.impl.Close()
}

// Seek is needed because variants.Variants type-asserts its input to io.Seeker.
func (f *File) Seek(offset int64, whence int) (int64, error) {
	if f == nil || f.impl == nil {
		return 0, os.ErrInvalid
	}
	if sk, ok := f.impl.(io.Seeker); ok {
		return sk.Seek(offset, whence)
	}
	return 0, os.ErrInvalid
}

type discardFile struct{}

func (discardFile) Read(p []byte) (int, error)  { return 0, io.EOF }
func (discardFile) Write(p []byte) (int, error) { return len(p), nil }
func (discardFile) Close() error                { return nil }

type osFile struct{ f *os.File }

func (o osFile) Read(p []byte) (int, error)  { return o.f.Read(p) }
func (o osFile) Write(p []byte) (int, error) { return o.f.Write(p) }
func (o osFile) Close() error                { return o.f.Close() }
func (o osFile) Seek(off int64, wh int) (int64, error) {
	return o.f.Seek(off, wh)
}

func fs() FS {
	if S != nil && S.cfg.FS != nil {
		return S.cfg.FS
	}
	return nil
}

// Stdout is os.Stdout.
func Stdout() *File {
	if f := fs(); f != nil {
		return &File{"/dev/stdout", f.Stdout()}
	}
	return &File{"/dev/stdout", osFile{os.Stdout}}
}

// Stderr is os.Stderr.
func Stderr() *File {
	if f := fs(); f != nil {
		return &File{"/dev/stderr", f.Stderr()}
	}
	return &File{"/dev/stderr", osFile{os.Stderr}}
}

// Stdin is os.Stdin.
func Stdin() *File {
	if f := fs(); f != nil {
		return &File{"/dev/stdin", f.Stdin()}
	}
	return &File{"/dev/stdin", osFile{os.Stdin}}
}

// Create is os.Create.
func Create(name string) (*File, error) {
	if f := fs(); f != nil {
		impl, err := f.Create(name)
		if err != nil {
			return nil, err
		}
		return &File{name, impl}, nil
	}
	of, err := os.Create(name)
	if err != nil {
		return nil, err
	}
	return &File{name, osFile{of}}, nil
}

// Open is os.Open.
func Open(name string) (*File, error) {
	if f := fs(); f != nil {
		impl, err := f.Open(name)
		if err != nil {
			return nil, err
		}
		return &File{name, impl}, nil
	}
	of, err := os.Open(name)
	if err != nil {
		return nil, err
	}
	return &File{name, osFile{of}}, nil
}

// OpenFile is os.OpenFile.
func OpenFile(name string, flag int, perm os.FileMode) (*File, error) {
	if f := fs(); f != nil {
		impl, err := f.OpenFile(name, flag, perm)
		if err != nil {
			return nil, err
		}
		return &File{name, impl}, nil
	}
	of, err := os.OpenFile(name, flag, perm)
	if err != nil {
		return nil, err
	}
	return &File{name, osFile{of}}, nil
}

// MkdirAll is os.MkdirAll.
func MkdirAll(path string, perm os.FileMode) error {
	if f := fs(); f != nil {
		return f.MkdirAll(path, perm)
	}
	return os.MkdirAll(path, perm)
}

var implicitCfg *Config

// implicitConfig is used when transformed code runs outside Run (the
// repository's own tests on the transformed tree): VERIF_SEED selects a random
// schedule, unset means the baseline policy P0.
func implicitConfig() Config {
	if implicitCfg == nil {
		c := Config{NumCPU: 4, MaxSteps: 1 << 30}
		if v := os.Getenv("VERIF_SEED"); v != "" {
			if n, err := strconv.ParseUint(v, 10, 64); err == nil {
				c.Seed = n
				c.Strategy = Strategy{Kind: StratSticky, SwitchP: 0.3, SelectRand: true}
				c.MapMode = 3
			}
		}
		if v := os.Getenv("VERIF_NUMCPU"); v != "" {
			if n, err := strconv.Atoi(v); err == nil && n > 0 {
				c.NumCPU = n
			}
		}
		implicitCfg = &c
	}
	return *implicitCfg
}

// NewFile wraps an implementation as a *File (the transformed code's *os.File).
func NewFile(name string, impl FileImpl) *File { return &File{name, impl} }
