// simgen rewrites the concurrency primitives, map iteration order, processor-count
// queries and a few os entry points of a Go module (a scratch copy of /repo) into
// calls to verif/simrt, so that a seeded scheduler decides every interleaving.
// It aborts with exit status 2 on any construct it does not model (DESIGN.md §3.1).
//
// usage: simgen -simrt /verif/simrt [-skip dir,dir] <module dir>
package main

import (
	"bytes"
	"flag"
	"fmt"
	"go/ast"
	"go/format"
	"go/token"
	"go/types"
	"os"
	"path/filepath"
	"sort"
	"strconv"
	"strings"

	"golang.org/x/tools/go/ast/astutil"
	"golang.org/x/tools/go/packages"
)

const simrtPath = "verif/simrt"

type rw struct {
	info      *types.Info
	fset      *token.FileSet
	pkgPath   string
	root      string
	isTest    bool
	n         int
	makeChan  map[*ast.CallExpr]bool
	closeCall map[*ast.CallExpr]bool
	lenCap    map[*ast.CallExpr]string
	recv2     map[*ast.UnaryExpr]bool
	rangeChan map[*ast.RangeStmt]bool
	rangeMap  map[*ast.RangeStmt]bool
	constArg  map[ast.Expr]bool
	plainFun  map[*ast.GoStmt]bool
	genRecv   map[*ast.CallExpr]ast.Expr // generated Recv/Recv2 call -> channel expr
	genSend   map[*ast.ExprStmt][2]ast.Expr
	used      bool
	errs      []string
	stats     map[string]int
}

func id(s string) *ast.Ident { return ast.NewIdent(s) }
func sel(x ast.Expr, s string) *ast.SelectorExpr {
	return &ast.SelectorExpr{X: x, Sel: id(s)}
}
func call(f ast.Expr, args ...ast.Expr) *ast.CallExpr { return &ast.CallExpr{Fun: f, Args: args} }
func paren(x ast.Expr) ast.Expr {
	switch x.(type) {
	case *ast.Ident, *ast.SelectorExpr, *ast.IndexExpr, *ast.CallExpr, *ast.ParenExpr:
		return x
	}
	return &ast.ParenExpr{X: x}
}
func (r *rw) simrt(name string) ast.Expr { r.used = true; return sel(id("simrt"), name) }
func (r *rw) tmp(p string) string        { r.n++; return "_sim" + p + strconv.Itoa(r.n) }
func (r *rw) errf(pos token.Pos, f string, a ...interface{}) {
	r.errs = append(r.errs, r.fset.Position(pos).String()+": "+fmt.Sprintf(f, a...))
}
func unparen(e ast.Expr) ast.Expr {
	for {
		p, ok := e.(*ast.ParenExpr)
		if !ok {
			return e
		}
		e = p.X
	}
}
func (r *rw) isBuiltin(e ast.Expr, name string) bool {
	i, ok := e.(*ast.Ident)
	if !ok || i.Name != name {
		return false
	}
	_, ok = r.info.Uses[i].(*types.Builtin)
	return ok
}
func (r *rw) pkgOf(e ast.Expr) string {
	i, ok := e.(*ast.Ident)
	if !ok {
		return ""
	}
	if pn, ok := r.info.Uses[i].(*types.PkgName); ok {
		return pn.Imported().Path()
	}
	return ""
}
func (r *rw) under(e ast.Expr) types.Type {
	t := r.info.TypeOf(e)
	if t == nil {
		return nil
	}
	return t.Underlying()
}

func (r *rw) prepass(f *ast.File) {
	ast.Inspect(f, func(n ast.Node) bool {
		switch x := n.(type) {
		case *ast.CallExpr:
			if r.isBuiltin(x.Fun, "make") && len(x.Args) >= 1 {
				if _, ok := r.under(x.Args[0]).(*types.Chan); ok {
					if _, lit := x.Args[0].(*ast.ChanType); !lit {
						r.errf(x.Pos(), "make of named channel type unsupported")
					}
					r.makeChan[x] = true
				}
			}
			if r.isBuiltin(x.Fun, "close") {
				r.closeCall[x] = true
			}
			if (r.isBuiltin(x.Fun, "len") || r.isBuiltin(x.Fun, "cap")) && len(x.Args) == 1 {
				if _, ok := r.under(x.Args[0]).(*types.Chan); ok {
					r.lenCap[x] = x.Fun.(*ast.Ident).Name
				}
			}
		case *ast.AssignStmt:
			if len(x.Lhs) == 2 && len(x.Rhs) == 1 {
				if u, ok := unparen(x.Rhs[0]).(*ast.UnaryExpr); ok && u.Op == token.ARROW {
					r.recv2[u] = true
				}
			}
		case *ast.ValueSpec:
			if len(x.Names) == 2 && len(x.Values) == 1 {
				if u, ok := unparen(x.Values[0]).(*ast.UnaryExpr); ok && u.Op == token.ARROW {
					r.recv2[u] = true
				}
			}
		case *ast.RangeStmt:
			switch r.under(x.X).(type) {
			case *types.Chan:
				r.rangeChan[x] = true
			case *types.Map:
				r.rangeMap[x] = true
			}
		case *ast.LabeledStmt:
			switch s := x.Stmt.(type) {
			case *ast.SelectStmt:
				r.errf(x.Pos(), "labelled select unsupported")
			case *ast.RangeStmt:
				switch r.under(s.X).(type) {
				case *types.Chan, *types.Map:
					r.errf(x.Pos(), "labelled range over chan/map unsupported")
				}
			}
		case *ast.GoStmt:
			for _, a := range x.Call.Args {
				if tv, ok := r.info.Types[a]; ok && (tv.Value != nil || tv.IsNil()) {
					r.constArg[a] = true
				}
			}
			switch fn := x.Call.Fun.(type) {
			case *ast.Ident, *ast.FuncLit:
				r.plainFun[x] = true
			case *ast.SelectorExpr:
				if r.pkgOf(fn.X) != "" {
					r.plainFun[x] = true
				}
			}
		case *ast.SelectorExpr:
			p := r.pkgOf(x.X)
			if p == "sync" && !syncOK[x.Sel.Name] {
				r.errf(x.Pos(), "sync.%s is not modelled by simrt", x.Sel.Name)
			}
			if p == "sync/atomic" && !atomicOK[x.Sel.Name] {
				r.errf(x.Pos(), "sync/atomic.%s is not modelled by simrt", x.Sel.Name)
			}
			if p == "unsafe" || p == "reflect" && x.Sel.Name == "Select" {
				r.errf(x.Pos(), "%s.%s is not modelled by simrt", p, x.Sel.Name)
			}
			if p == "time" && timeBad[x.Sel.Name] {
				r.errf(x.Pos(), "time.%s is not modelled by simrt", x.Sel.Name)
			}
			if p == "os" && osUnmodelled[x.Sel.Name] && r.ioSeams() {
				r.errf(x.Pos(), "os.%s would touch the real file system from simulated code; it is not modelled by simrt", x.Sel.Name)
			}
			if p == "os" && x.Sel.Name == "Exit" && r.ioSeams() && !strings.HasSuffix(r.pkgPath, "/cmd") {
				r.errf(x.Pos(), "os.Exit in library code is not modelled by simrt")
			}
		}
		return true
	})
}

func (r *rw) chanType(elem ast.Expr) ast.Expr {
	return &ast.StarExpr{X: &ast.IndexExpr{X: r.simrt("Chan"), Index: elem}}
}

func chanElem(t ast.Expr) ast.Expr { // from *simrt.Chan[T]
	return t.(*ast.StarExpr).X.(*ast.IndexExpr).Index
}

func (r *rw) post(c *astutil.Cursor) bool {
	switch n := c.Node().(type) {
	case *ast.ChanType:
		r.stats["chantype"]++
		c.Replace(r.chanType(n.Value))
	case *ast.SelectorExpr:
		p := r.pkgOf(n.X)
		switch {
		case p == "sync" && syncOK[n.Sel.Name]:
			r.stats["sync"]++
			c.Replace(r.simrt(n.Sel.Name))
		case p == "sync/atomic" && atomicOK[n.Sel.Name]:
			r.stats["atomic"]++
			c.Replace(r.simrt("Atomic" + n.Sel.Name))
		case p == "time" && (n.Sel.Name == "Sleep" || n.Sel.Name == "After" || n.Sel.Name == "Now"):
			r.stats["time"]++
			c.Replace(r.simrt(n.Sel.Name))
		case p == "runtime" && (n.Sel.Name == "NumCPU" || n.Sel.Name == "GOMAXPROCS"):
			r.stats["knob"]++
			c.Replace(r.simrt(n.Sel.Name))
		case p == "os" && r.ioSeams() && (n.Sel.Name == "Stdout" || n.Sel.Name == "Stderr" || n.Sel.Name == "Stdin"):
			r.stats["stdio"]++
			c.Replace(call(r.simrt(n.Sel.Name)))
		case p == "os" && r.ioSeams() && (n.Sel.Name == "Create" || n.Sel.Name == "MkdirAll" || n.Sel.Name == "Open" || n.Sel.Name == "OpenFile" || n.Sel.Name == "File"):
			r.stats["fs"]++
			c.Replace(r.simrt(n.Sel.Name))
		}
	case *ast.CallExpr:
		switch {
		case r.makeChan[n]:
			r.stats["makechan"]++
			var capE ast.Expr = &ast.BasicLit{Kind: token.INT, Value: "0"}
			if len(n.Args) > 1 {
				capE = n.Args[1]
			}
			site := &ast.BasicLit{Kind: token.STRING, Value: strconv.Quote(r.relPos(n.Pos()))}
			c.Replace(call(&ast.IndexExpr{X: r.simrt("MakeChan"), Index: chanElem(n.Args[0])}, capE, site))
		case r.closeCall[n]:
			r.stats["close"]++
			c.Replace(call(sel(paren(n.Args[0]), "Close")))
		case r.fmtPrint(n) != "":
			// fmt.Print* write to the process's standard output: the simulated one
			r.stats["stdio"]++
			fun := n.Fun.(*ast.SelectorExpr)
			fun.Sel = id("F" + strings.ToLower(fun.Sel.Name[:1]) + fun.Sel.Name[1:])
			n.Args = append([]ast.Expr{call(r.simrt("Stdout"))}, n.Args...)
		case r.lenCap[n] != "":
			m := "Len"
			if r.lenCap[n] == "cap" {
				m = "Cap"
			}
			c.Replace(call(sel(paren(n.Args[0]), m)))
		}
	case *ast.SendStmt:
		r.stats["send"]++
		es := &ast.ExprStmt{X: call(sel(paren(n.Chan), "Send"), n.Value)}
		r.genSend[es] = [2]ast.Expr{n.Chan, n.Value}
		c.Replace(es)
	case *ast.UnaryExpr:
		if n.Op == token.ARROW {
			r.stats["recv"]++
			m := "Recv"
			if r.recv2[n] {
				m = "Recv2"
			}
			ce := call(sel(paren(n.X), m))
			r.genRecv[ce] = n.X
			c.Replace(ce)
		}
	case *ast.RangeStmt:
		if r.rangeChan[n] {
			r.stats["rangechan"]++
			c.Replace(r.rangeChanStmt(n))
		} else if r.rangeMap[n] {
			r.stats["rangemap"]++
			c.Replace(r.rangeMapStmt(n))
		}
	case *ast.SelectStmt:
		r.stats["select"]++
		c.Replace(r.selectStmt(n))
	case *ast.GoStmt:
		r.stats["go"]++
		c.Replace(r.goStmt(n))
	}
	return true
}

func (r *rw) fmtPrint(n *ast.CallExpr) string {
	fun, ok := n.Fun.(*ast.SelectorExpr)
	if !ok || !r.ioSeams() || r.pkgOf(fun.X) != "fmt" {
		return ""
	}
	switch fun.Sel.Name {
	case "Print", "Println", "Printf":
		return fun.Sel.Name
	}
	return ""
}

// ioSeams: the os seams are applied to non-test files only (tests keep real files).
func (r *rw) ioSeams() bool { return !r.isTest }

var atomicOK = func() map[string]bool {
	m := map[string]bool{"Bool": true}
	for _, t := range []string{"Int32", "Int64", "Uint32", "Uint64"} {
		m[t] = true
		for _, op := range []string{"Add", "Load", "Store", "Swap", "CompareAndSwap"} {
			m[op+t] = true
		}
	}
	return m
}()

var osUnmodelled = map[string]bool{"ReadFile": true, "WriteFile": true, "Remove": true, "RemoveAll": true, "Rename": true, "Mkdir": true, "MkdirTemp": true, "CreateTemp": true,
	"Stat": true, "Lstat": true, "ReadDir": true, "Chdir": true, "Truncate": true, "Symlink": true, "Link": true, "Chmod": true, "NewFile": true, "Pipe": true, "DirFS": true}

var syncOK = map[string]bool{"WaitGroup": true, "Mutex": true, "RWMutex": true, "Once": true, "Pool": true}
var timeBad = map[string]bool{"NewTimer": true, "Tick": true, "AfterFunc": true, "NewTicker": true, "Since": true, "Until": true, "Timer": true, "Ticker": true}

func (r *rw) relPos(p token.Pos) string {
	pos := r.fset.Position(p)
	return strings.TrimPrefix(pos.Filename, r.root+"/") + ":" + strconv.Itoa(pos.Line)
}

// goSite names a go statement by the function it starts (stable across reformatting) plus its position.
func (r *rw) goSite(n *ast.GoStmt) string {
	name := "func"
	switch f := n.Call.Fun.(type) {
	case *ast.Ident:
		name = f.Name
	case *ast.SelectorExpr:
		name = f.Sel.Name
	case *ast.FuncLit:
		// name of the first function called inside the literal, if any
		ast.Inspect(f.Body, func(x ast.Node) bool {
			if name != "func" {
				return false
			}
			if ce, ok := x.(*ast.CallExpr); ok {
				switch g := ce.Fun.(type) {
				case *ast.Ident:
					name = "func:" + g.Name
				case *ast.SelectorExpr:
					name = "func:" + g.Sel.Name
				}
			}
			return true
		})
	}
	return name + "@" + r.relPos(n.Pos())
}

func isBlank(e ast.Expr) bool {
	i, ok := e.(*ast.Ident)
	return e == nil || (ok && i.Name == "_")
}

func assign(tok token.Token, lhs []ast.Expr, rhs ...ast.Expr) *ast.AssignStmt {
	return &ast.AssignStmt{Lhs: lhs, Tok: tok, Rhs: rhs}
}

func (r *rw) rangeChanStmt(n *ast.RangeStmt) ast.Stmt {
	ch := r.tmp("ch")
	ok := r.tmp("ok")
	var pre []ast.Stmt
	pre = append(pre, assign(token.DEFINE, []ast.Expr{id(ch)}, n.X))
	var target ast.Expr = id("_")
	if !isBlank(n.Key) {
		target = n.Key
		if n.Tok == token.DEFINE {
			pre = append(pre, assign(token.DEFINE, []ast.Expr{n.Key}, call(sel(id(ch), "Zero"))))
		}
	}
	body := []ast.Stmt{
		&ast.DeclStmt{Decl: &ast.GenDecl{Tok: token.VAR, Specs: []ast.Spec{&ast.ValueSpec{Names: []*ast.Ident{id(ok)}, Type: id("bool")}}}},
		assign(token.ASSIGN, []ast.Expr{target, id(ok)}, call(sel(id(ch), "Recv2"))),
		&ast.IfStmt{Cond: &ast.UnaryExpr{Op: token.NOT, X: id(ok)}, Body: &ast.BlockStmt{List: []ast.Stmt{&ast.BranchStmt{Tok: token.BREAK}}}},
	}
	body = append(body, n.Body.List...)
	loop := &ast.ForStmt{Body: &ast.BlockStmt{List: body}}
	return &ast.BlockStmt{List: append(pre, loop)}
}

func (r *rw) rangeMapStmt(n *ast.RangeStmt) ast.Stmt {
	m := r.tmp("m")
	pre := []ast.Stmt{assign(token.DEFINE, []ast.Expr{id(m)}, n.X)}
	keys := call(r.simrt("MapKeys"), id(m))
	if isBlank(n.Key) && isBlank(n.Value) {
		return &ast.BlockStmt{List: append(pre, &ast.RangeStmt{Tok: token.ILLEGAL, X: keys, Body: n.Body})}
	}
	k := r.tmp("k")
	present := r.tmp("p")
	var body []ast.Stmt
	vt := id("_")
	var vtarget ast.Expr = vt
	if !isBlank(n.Value) {
		vtarget = n.Value
	}
	if n.Tok == token.DEFINE {
		if !isBlank(n.Key) {
			body = append(body, assign(token.DEFINE, []ast.Expr{n.Key}, id(k)))
		}
		body = append(body, assign(token.DEFINE, []ast.Expr{vtarget, id(present)}, &ast.IndexExpr{X: id(m), Index: id(k)}))
	} else {
		if !isBlank(n.Key) {
			body = append(body, assign(token.ASSIGN, []ast.Expr{n.Key}, id(k)))
		}
		body = append(body, &ast.DeclStmt{Decl: &ast.GenDecl{Tok: token.VAR, Specs: []ast.Spec{&ast.ValueSpec{Names: []*ast.Ident{id(present)}, Type: id("bool")}}}})
		body = append(body, assign(token.ASSIGN, []ast.Expr{vtarget, id(present)}, &ast.IndexExpr{X: id(m), Index: id(k)}))
	}
	body = append(body, &ast.IfStmt{Cond: &ast.UnaryExpr{Op: token.NOT, X: id(present)}, Body: &ast.BlockStmt{List: []ast.Stmt{&ast.BranchStmt{Tok: token.CONTINUE}}}})
	body = append(body, n.Body.List...)
	loop := &ast.RangeStmt{Key: id("_"), Value: id(k), Tok: token.DEFINE, X: keys, Body: &ast.BlockStmt{List: body}}
	return &ast.BlockStmt{List: append(pre, loop)}
}

func (r *rw) selectStmt(n *ast.SelectStmt) ast.Stmt {
	var pre []ast.Stmt
	var cases []ast.Expr
	var clauses []ast.Stmt
	for i, cl := range n.Body.List {
		cc := cl.(*ast.CommClause)
		var head []ast.Stmt
		nilE := id("nil")
		switch comm := cc.Comm.(type) {
		case nil:
			cases = append(cases, call(r.simrt("Default")))
		case *ast.ExprStmt:
			if sv, ok := r.genSend[comm]; ok {
				cases = append(cases, call(sel(paren(sv[0]), "SendCase"), sv[1]))
			} else if ce, ok := comm.X.(*ast.CallExpr); ok && r.genRecv[ce] != nil {
				cases = append(cases, call(sel(paren(r.genRecv[ce]), "RecvCase"), nilE, nilE))
			} else {
				r.errf(cc.Pos(), "unrecognised select comm")
			}
		case *ast.AssignStmt:
			ce, ok := unparen(comm.Rhs[0]).(*ast.CallExpr)
			if !ok || r.genRecv[ce] == nil {
				r.errf(cc.Pos(), "unrecognised select recv assignment")
				continue
			}
			chE := r.genRecv[ce]
			chv := r.tmp("c")
			rv := r.tmp("r")
			pre = append(pre, assign(token.DEFINE, []ast.Expr{id(chv)}, chE))
			pre = append(pre, assign(token.DEFINE, []ast.Expr{id(rv)}, call(sel(id(chv), "Zero"))))
			var okArg ast.Expr = nilE
			rhs := []ast.Expr{id(rv)}
			if len(comm.Lhs) == 2 {
				okv := r.tmp("ok")
				pre = append(pre, &ast.DeclStmt{Decl: &ast.GenDecl{Tok: token.VAR, Specs: []ast.Spec{&ast.ValueSpec{Names: []*ast.Ident{id(okv)}, Type: id("bool")}}}})
				okArg = &ast.UnaryExpr{Op: token.AND, X: id(okv)}
				rhs = append(rhs, id(okv))
			}
			cases = append(cases, call(sel(id(chv), "RecvCase"), &ast.UnaryExpr{Op: token.AND, X: id(rv)}, okArg))
			head = append(head, assign(comm.Tok, comm.Lhs, rhs...))
		default:
			r.errf(cc.Pos(), "unrecognised select comm %T", comm)
		}
		clauses = append(clauses, &ast.CaseClause{List: []ast.Expr{&ast.BasicLit{Kind: token.INT, Value: strconv.Itoa(i)}}, Body: append(head, cc.Body...)})
	}
	// a select whose clauses all end in terminating statements is itself terminating; a switch is
	// only if it has a default clause, so add an unreachable one (every real index has its own case)
	clauses = append(clauses, &ast.CaseClause{List: nil, Body: []ast.Stmt{&ast.ExprStmt{X: call(id("panic"), &ast.BasicLit{Kind: token.STRING, Value: strconv.Quote("simrt: impossible select result")})}}})
	sw := &ast.SwitchStmt{Tag: call(r.simrt("Select"), cases...), Body: &ast.BlockStmt{List: clauses}}
	return &ast.BlockStmt{List: append(pre, sw)}
}

func (r *rw) goStmt(n *ast.GoStmt) ast.Stmt {
	site := &ast.BasicLit{Kind: token.STRING, Value: strconv.Quote(r.goSite(n))}
	if fl, ok := n.Call.Fun.(*ast.FuncLit); ok && len(n.Call.Args) == 0 {
		return &ast.ExprStmt{X: call(r.simrt("Go"), site, fl)}
	}
	var pre []ast.Stmt
	fun := n.Call.Fun
	if !r.plainFun[n] {
		f := r.tmp("f")
		pre = append(pre, assign(token.DEFINE, []ast.Expr{id(f)}, fun))
		fun = id(f)
	}
	args := make([]ast.Expr, len(n.Call.Args))
	for i, a := range n.Call.Args {
		if r.constArg[a] {
			args[i] = a
			continue
		}
		t := r.tmp("a")
		pre = append(pre, assign(token.DEFINE, []ast.Expr{id(t)}, a))
		args[i] = id(t)
	}
	inner := &ast.CallExpr{Fun: fun, Args: args, Ellipsis: n.Call.Ellipsis}
	lit := &ast.FuncLit{Type: &ast.FuncType{Params: &ast.FieldList{}}, Body: &ast.BlockStmt{List: []ast.Stmt{&ast.ExprStmt{X: inner}}}}
	return &ast.BlockStmt{List: append(pre, &ast.ExprStmt{X: call(r.simrt("Go"), site, lit)})}
}

func main() {
	simrtDir := flag.String("simrt", "/verif/simrt", "directory of the verif/simrt module (for the replace directive)")
	skip := flag.String("skip", "zverif", "comma-separated top-level directories of the module that are not rewritten")
	flag.Parse()
	if flag.NArg() != 1 {
		fmt.Fprintln(os.Stderr, "usage: simgen [-simrt dir] [-skip dirs] <module dir>")
		os.Exit(2)
	}
	dir, err := filepath.Abs(flag.Arg(0))
	if err != nil {
		fmt.Fprintln(os.Stderr, err)
		os.Exit(2)
	}
	skipDirs := strings.Split(*skip, ",")
	cfg := &packages.Config{Mode: packages.NeedName | packages.NeedFiles | packages.NeedCompiledGoFiles | packages.NeedSyntax | packages.NeedTypes | packages.NeedTypesInfo | packages.NeedImports | packages.NeedDeps, Dir: dir, Tests: true}
	pkgs, err := packages.Load(cfg, "./...")
	if err != nil {
		fmt.Fprintln(os.Stderr, err)
		os.Exit(2)
	}
	sort.Slice(pkgs, func(i, j int) bool { // test variants first: they carry type info for all files
		a, b := strings.Contains(pkgs[i].ID, "["), strings.Contains(pkgs[j].ID, "[")
		if a != b {
			return a
		}
		return pkgs[i].ID < pkgs[j].ID
	})
	done := map[string]bool{}
	total := map[string]int{}
	bad := false
	for _, p := range pkgs {
		if strings.HasSuffix(p.ID, ".test") {
			continue
		}
		for _, e := range p.Errors {
			fmt.Fprintln(os.Stderr, "load error:", e)
			bad = true
		}
	files:
		for i, f := range p.Syntax {
			if i >= len(p.CompiledGoFiles) {
				break
			}
			fn := p.CompiledGoFiles[i]
			if done[fn] || !strings.HasPrefix(fn, dir+"/") {
				continue
			}
			rel := strings.TrimPrefix(fn, dir+"/")
			for _, sd := range skipDirs {
				if sd != "" && strings.HasPrefix(rel, sd+"/") {
					continue files
				}
			}
			done[fn] = true
			skipFile := false
			for _, cg := range f.Comments {
				for _, c := range cg.List {
					if strings.HasPrefix(c.Text, "// simgen:skip") {
						skipFile = true
					}
				}
			}
			if skipFile {
				continue
			}
			r := &rw{info: p.TypesInfo, fset: p.Fset, pkgPath: p.PkgPath, root: dir, isTest: strings.HasSuffix(fn, "_test.go"), makeChan: map[*ast.CallExpr]bool{}, closeCall: map[*ast.CallExpr]bool{}, lenCap: map[*ast.CallExpr]string{}, recv2: map[*ast.UnaryExpr]bool{}, rangeChan: map[*ast.RangeStmt]bool{}, rangeMap: map[*ast.RangeStmt]bool{}, constArg: map[ast.Expr]bool{}, plainFun: map[*ast.GoStmt]bool{}, genRecv: map[*ast.CallExpr]ast.Expr{}, genSend: map[*ast.ExprStmt][2]ast.Expr{}, stats: total}
			r.prepass(f)
			if len(r.errs) == 0 {
				astutil.Apply(f, nil, r.post)
			}
			if len(r.errs) == 0 && r.used {
				// comments are dropped when the file is printed: refuse files whose comments carry meaning
				for _, cg := range f.Comments {
					for _, c := range cg.List {
						if strings.HasPrefix(c.Text, "//go:") && !strings.HasPrefix(c.Text, "//go:generate") || strings.HasPrefix(c.Text, "// +build") || strings.HasPrefix(c.Text, "//export ") {
							r.errf(c.Pos(), "compiler directive %q in a file that needs rewriting", c.Text)
						}
					}
				}
				for _, im := range f.Imports {
					if im.Path.Value == `"C"` {
						r.errf(im.Pos(), "cgo is not modelled by simrt")
					}
				}
			}
			if len(r.errs) > 0 {
				for _, e := range r.errs {
					fmt.Fprintln(os.Stderr, "simgen: unsupported:", e)
				}
				bad = true
				continue
			}
			if !r.used {
				continue
			}
			f.Comments = nil
			f.Doc = nil
			astutil.AddImport(p.Fset, f, simrtPath)
			for _, ip := range []string{"sync", "sync/atomic", "runtime", "os", "time"} {
				if !astutil.UsesImport(f, ip) {
					astutil.DeleteImport(p.Fset, f, ip)
				}
			}
			var buf bytes.Buffer
			if err := format.Node(&buf, p.Fset, f); err != nil {
				fmt.Fprintln(os.Stderr, "simgen: format:", fn, err)
				bad = true
				continue
			}
			if err := os.WriteFile(fn, buf.Bytes(), 0644); err != nil {
				fmt.Fprintln(os.Stderr, "simgen:", err)
				os.Exit(2)
			}
			total["files"]++
		}
	}
	if bad {
		os.Exit(2)
	}
	// package-level variables: every run stands for a fresh process (DESIGN.md §3.1)
	resetDone := map[string]bool{}
	for _, p := range pkgs {
		if strings.HasSuffix(p.ID, ".test") || strings.HasSuffix(p.PkgPath, "_test") {
			continue
		}
		if err := genReset(p, dir, skipDirs, resetDone, total); err != nil {
			fmt.Fprintln(os.Stderr, "simgen: reset:", p.PkgPath, err)
			os.Exit(2)
		}
	}
	// go.mod of the copy: require + replace for simrt
	gm := filepath.Join(dir, "go.mod")
	b, err := os.ReadFile(gm)
	if err != nil {
		fmt.Fprintln(os.Stderr, "simgen:", err)
		os.Exit(2)
	}
	if !strings.Contains(string(b), simrtPath) {
		b = append(b, []byte("\nrequire "+simrtPath+" v0.0.0\n\nreplace "+simrtPath+" => "+*simrtDir+"\n")...)
		if err := os.WriteFile(gm, b, 0644); err != nil {
			fmt.Fprintln(os.Stderr, "simgen:", err)
			os.Exit(2)
		}
	}
	keys := make([]string, 0, len(total))
	for k := range total {
		keys = append(keys, k)
	}
	sort.Strings(keys)
	fmt.Print("simgen:")
	for _, k := range keys {
		fmt.Printf(" %s=%d", k, total[k])
	}
	fmt.Println()
}

// genReset writes zverif_reset.go into the package's directory: a function, registered with simrt and
// called when a simulated run starts, that puts every package-level variable back to its initial value
// (zero value or initialiser, in the package's initialisation order). A package-level cache, scratch buffer
// or counter then cannot carry state from one simulated run to the next: every run is a cold process, as
// every invocation of the real command is. Packages that have init() functions are left alone (their
// initial state is not a function of the initialisers alone); they are counted in the summary line.
func genReset(p *packages.Package, root string, skipDirs []string, doneDirs map[string]bool, total map[string]int) error {
	var files []*ast.File
	pdir := ""
	for i, f := range p.Syntax {
		if i >= len(p.CompiledGoFiles) {
			break
		}
		fn := p.CompiledGoFiles[i]
		if !strings.HasPrefix(fn, root+"/") || strings.HasSuffix(fn, "_test.go") {
			continue
		}
		rel := strings.TrimPrefix(fn, root+"/")
		for _, sd := range skipDirs {
			if sd != "" && strings.HasPrefix(rel, sd+"/") {
				return nil
			}
		}
		pdir = filepath.Dir(fn)
		files = append(files, f)
	}
	if pdir == "" || doneDirs[pdir] {
		return nil
	}
	doneDirs[pdir] = true
	type slot struct {
		spec *ast.ValueSpec
		idx  int
	}
	vars := map[string]slot{}
	var order []string // declaration order, for the variables without initialiser
	for _, f := range files {
		for _, d := range f.Decls {
			switch d := d.(type) {
			case *ast.FuncDecl:
				if d.Recv == nil && d.Name.Name == "init" {
					total["packages-with-init-not-reset"]++
					return nil
				}
			case *ast.GenDecl:
				if d.Tok != token.VAR {
					continue
				}
				for _, sp := range d.Specs {
					vs := sp.(*ast.ValueSpec)
					for i, n := range vs.Names {
						if n.Name != "_" {
							vars[n.Name] = slot{vs, i}
							order = append(order, n.Name)
						}
					}
				}
			}
		}
	}
	if len(vars) == 0 {
		return nil
	}
	imports := map[string]string{}
	var exprs []ast.Expr
	show := func(e ast.Expr) (string, error) {
		var b bytes.Buffer
		if err := format.Node(&b, p.Fset, e); err != nil {
			return "", err
		}
		exprs = append(exprs, e)
		return b.String(), nil
	}
	var body bytes.Buffer
	for _, n := range order {
		sl := vars[n]
		if len(sl.spec.Values) != 0 {
			continue
		}
		t, err := show(sl.spec.Type)
		if err != nil {
			return err
		}
		fmt.Fprintf(&body, "\t%s = *new(%s)\n", n, t)
	}
	seen := map[*ast.ValueSpec]bool{}
	for _, in := range p.TypesInfo.InitOrder {
		var sl slot
		found := false
		for _, l := range in.Lhs {
			if s, ok := vars[l.Name()]; ok && l.Pkg() == p.Types && l.Parent() == p.Types.Scope() {
				sl, found = s, true
				break
			}
		}
		if !found || len(sl.spec.Values) == 0 {
			continue
		}
		if len(sl.spec.Values) == len(sl.spec.Names) {
			for i, n := range sl.spec.Names {
				if n.Name == "_" || len(in.Lhs) != 1 || in.Lhs[0].Name() != n.Name {
					continue
				}
				v, err := show(sl.spec.Values[i])
				if err != nil {
					return err
				}
				if sl.spec.Type != nil {
					t, err := show(sl.spec.Type)
					if err != nil {
						return err
					}
					fmt.Fprintf(&body, "\t{\n\t\tvar v %s = %s\n\t\t%s = v\n\t}\n", t, v, n.Name)
				} else {
					fmt.Fprintf(&body, "\t%s = %s\n", n.Name, v)
				}
			}
			continue
		}
		if seen[sl.spec] {
			continue
		}
		seen[sl.spec] = true
		names := make([]string, len(sl.spec.Names))
		for i, n := range sl.spec.Names {
			names[i] = n.Name
		}
		v, err := show(sl.spec.Values[0])
		if err != nil {
			return err
		}
		fmt.Fprintf(&body, "\t%s = %s\n", strings.Join(names, ", "), v)
	}
	if body.Len() == 0 {
		return nil
	}
	for _, e := range exprs {
		ast.Inspect(e, func(n ast.Node) bool {
			se, ok := n.(*ast.SelectorExpr)
			if !ok {
				return true
			}
			x, ok := se.X.(*ast.Ident)
			if !ok {
				return true
			}
			if pn, ok := p.TypesInfo.Uses[x].(*types.PkgName); ok {
				imports[pn.Name()] = pn.Imported().Path()
			} else if x.Name == "simrt" && p.TypesInfo.Uses[x] == nil {
				imports["simrt"] = simrtPath
			}
			return true
		})
	}
	imports["simrt"] = simrtPath
	var src bytes.Buffer
	fmt.Fprintf(&src, "// Code generated by simgen. DO NOT EDIT.\n\npackage %s\n\nimport (\n", p.Name)
	names := make([]string, 0, len(imports))
	for n := range imports {
		names = append(names, n)
	}
	sort.Strings(names)
	for _, n := range names {
		fmt.Fprintf(&src, "\t%s %q\n", n, imports[n])
	}
	fmt.Fprintf(&src, ")\n\nfunc init() { simrt.RegisterReset(zverifReset) }\n\nfunc zverifReset() {\n%s}\n", body.String())
	out, err := format.Source(src.Bytes())
	if err != nil {
		return fmt.Errorf("%v\n%s", err, src.String())
	}
	total["packages-reset"]++
	return os.WriteFile(filepath.Join(pdir, "zverif_reset.go"), out, 0644)
}
