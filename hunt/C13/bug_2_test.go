// copy to: pkg/sam/
//
// A read error while the GenBank annotation is being read is swallowed (genbank.ReadGenBank never looks
// at its scanner's error): `sam variants --reference ref.fa --annotation x.gb --aggregate` then carries on
// with the features read so far, prints frequencies of mutations that are in no query's per-sequence
// output, leaves out mutations that are, and returns no error.
package sam

import (
	"bytes"
	"errors"
	"io"
	"strings"
	"testing"
)

type bug2ErrReader struct{}

func (bug2ErrReader) Read(p []byte) (int, error) {
	return 0, errors.New("read fault (input/output error)")
}

func TestBug2AggregateAfterGenbankReadFault(t *testing.T) {
	gbLines := []string{
		"LOCUS       ref 18 bp",
		"FEATURES             Location/Qualifiers",
		"     source          1..18",
		"     CDS             1..9",
		"                     /gene=\"g1\"",
		"                     /codon_start=1",
		"                     /translation=\"MKF\"",
		"     CDS             10..18",
		"                     /gene=\"g2\"",
		"                     /codon_start=1",
		"                     /translation=\"GP\"",
		"ORIGIN",
		"        1 atgaaatttg ggccctaa",
		"//",
	}
	const refData = ">ref\nATGAAATTTGGGCCCTAA\n"
	const samData = "@HD\tVN:1.6\n@SQ\tSN:ref\tLN:18\n" +
		"q1\t0\tref\t1\t60\t18M\t*\t0\t0\tATGCAATTTGGGACCTAA\t*\n" +
		"q2\t0\tref\t1\t60\t18M\t*\t0\t0\tATGCAATTTGGGCCCTAA\t*\n"

	run := func(anno io.Reader, aggregate bool) (string, error) {
		out := new(bytes.Buffer)
		err := Variants(strings.NewReader(samData), strings.NewReader(refData), true, anno, "gb", out, -1, -1, aggregate, 0.0, false, 2)
		return out.String(), err
	}

	whole := strings.Join(gbLines, "\n") + "\n"

	perSeq, err := run(strings.NewReader(whole), false)
	if err != nil {
		t.Fatal(err)
	}
	if perSeq != "query,mutations\nq1,aa:g1:K2Q|aa:g2:P2T\nq2,aa:g1:K2Q\n" {
		t.Fatalf("unexpected per-sequence output: %q", perSeq)
	}
	// the per-sequence output, counted:
	want := "mutation,frequency\naa:g1:K2Q,1.000000000\naa:g2:P2T,0.500000000\n"

	got, err := run(strings.NewReader(whole), true)
	if err != nil || got != want {
		t.Fatalf("without a fault: err = %v, output = %q, want %q", err, got, want)
	}

	// the read of the annotation fails after k whole lines
	for _, k := range []int{0, 1, 2, 3, 7} {
		prefix := ""
		if k > 0 {
			prefix = strings.Join(gbLines[:k], "\n") + "\n"
		}
		got, err := run(io.MultiReader(strings.NewReader(prefix), bug2ErrReader{}), true)
		if err == nil && got != want {
			t.Errorf("annotation read fails after %d of %d lines: Variants() returns no error and writes %q (the per-sequence results, counted, are %q)", k, len(gbLines), got, want)
		}
	}
}
