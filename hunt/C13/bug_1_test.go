// copy to: pkg/variants/
//
// A read error while the GFF annotation is being read is swallowed (gff.ReadGFF never looks at its
// scanner's error): `variants --aggregate` (and `sam variants --aggregate`) then carry on with the
// features read so far, print frequencies of mutations that are in no query's per-sequence output, leave
// out mutations that are, and return no error.
package variants

import (
	"bytes"
	"errors"
	"io"
	"sort"
	"strconv"
	"strings"
	"testing"
)

// bug1FaultyReader hands out the first `left` bytes of r and then fails with a (non-EOF) read error
type bug1FaultyReader struct {
	r    io.Reader
	left int
}

func (f *bug1FaultyReader) Read(p []byte) (int, error) {
	if f.left <= 0 {
		return 0, errors.New("read fault (input/output error)")
	}
	if len(p) > f.left {
		p = p[:f.left]
	}
	n, err := f.r.Read(p)
	f.left -= n
	return n, err
}

func TestBug1AggregateAfterAnnotationReadFault(t *testing.T) {
	const gffData = "##gff-version 3\n" +
		"##sequence-region ref 1 18\n" +
		"ref\tx\tCDS\t1\t9\t.\t+\t0\tID=a;Name=g1\n" +
		"ref\tx\tCDS\t10\t18\t.\t+\t0\tID=b;Name=g2\n"
	const msaData = ">ref\nATGAAATTTGGGCCCTAA\n" +
		">q1\nATGCAATTTGGGACCTAA\n" +
		">q2\nATGCAATTTGGGCCCTAA\n"

	run := func(anno io.Reader, aggregate bool) (string, error) {
		out := new(bytes.Buffer)
		err := Variants(bytes.NewReader([]byte(msaData)), false, "ref", anno, "gff", out, -1, -1, aggregate, 0.0, false, 2)
		return out.String(), err
	}

	// the per-sequence output, counted: this is what the property says --aggregate has to print
	perSeq, err := run(strings.NewReader(gffData), false)
	if err != nil {
		t.Fatal(err)
	}
	lines := strings.Split(strings.TrimSuffix(perSeq, "\n"), "\n")[1:]
	count := make(map[string]int)
	for _, l := range lines {
		muts := l[strings.Index(l, ",")+1:]
		if muts == "" {
			continue
		}
		for _, m := range strings.Split(muts, "|") {
			count[m]++
		}
	}
	if len(lines) != 2 || count["aa:g1:K2Q"] != 2 || count["aa:g2:P2T"] != 1 || len(count) != 2 {
		t.Fatalf("unexpected per-sequence output: %q", perSeq)
	}
	keys := make([]string, 0)
	for k := range count {
		keys = append(keys, k)
	}
	sort.Strings(keys) // (aa:g1:K2Q is at position 4, aa:g2:P2T at position 13)
	want := "mutation,frequency\n"
	for _, k := range keys {
		want += k + "," + strconv.FormatFloat(float64(count[k])/float64(len(lines)), 'f', 9, 64) + "\n"
	}

	got, err := run(strings.NewReader(gffData), true)
	if err != nil || got != want {
		t.Fatalf("without a fault: err = %v, output = %q, want %q", err, got, want)
	}

	// now the read of the annotation fails after n bytes, for every n
	for n := 0; n < len(gffData); n++ {
		got, err := run(&bug1FaultyReader{r: strings.NewReader(gffData), left: n}, true)
		if err == nil && got != want {
			t.Errorf("annotation read fails after %d of %d bytes: Variants() returns no error and writes %q (the per-sequence results, counted, are %q)", n, len(gffData), got, want)
		}
	}
}
