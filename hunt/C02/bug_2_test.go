// copy to: pkg/sam/
//
// sam toPairAlign: an insertion shared by two overlapping records of a query is still opened
// twice when the two records spell it with different I operations (3I in one, 1I1P2I / 1I2I in
// the other) - the repair of the "shared insertion" defect compares single I operations.
package sam

import (
	"os"
	"path/filepath"
	"strings"
	"testing"
)

func TestBug2SharedInsertionSpelledDifferently(t *testing.T) {
	const ref = "ACGTACGTAC"
	header := "@HD\tVN:1.6\n@SQ\tSN:ref\tLN:10\n"
	// query = ACGT GGG ACGT.. : 3-base insertion GGG after reference base 4
	// record 1 covers reference 1-6, record 2 (supplementary, overlapping) covers reference 3-8
	for _, second := range []string{"2M3I4M" /* control: passes */, "2M1I1P2I4M", "2M1I2I4M", "2M2I1I4M"} {
		sam := header +
			"q1\t0\tref\t1\t60\t4M3I2M\t*\t0\t0\tACGTGGGAC\t*\n" +
			"q1\t2048\tref\t3\t60\t" + second + "\t*\t0\t0\tGTGGGACGT\t*\n"
		dir := t.TempDir()
		err := ToPairAlign(strings.NewReader(sam), strings.NewReader(">ref\n"+ref+"\n"), dir, -1, -1, -1, false, false, 1)
		if err != nil {
			t.Fatalf("%s: ToPairAlign: %v", second, err)
		}
		b, err := os.ReadFile(filepath.Join(dir, "q1.fasta"))
		if err != nil {
			t.Fatal(err)
		}
		lines := strings.Split(strings.TrimRight(string(b), "\n"), "\n")
		if len(lines) != 4 {
			t.Fatalf("%s: unexpected output:\n%s", second, b)
		}
		refRow, queryRow := lines[1], lines[3]
		if got := strings.ReplaceAll(refRow, "-", ""); got != ref {
			t.Errorf("%s: reference row %q without '-' is %q, want %q", second, refRow, got, ref)
		}
		if n := strings.Count(refRow, "-"); n != 3 {
			t.Errorf("%s: reference row %q has %d gap columns, the query has one insertion of 3 bases", second, refRow, n)
		}
		if refRow != "ACGT---ACGTAC" || queryRow != "ACGTGGGACGTNN" {
			t.Errorf("%s:\n got ref   %s\n got query %s\nwant ref   ACGT---ACGTAC\nwant query ACGTGGGACGTNN", second, refRow, queryRow)
		}
		// and: deleting the reference-gap columns from the query row must give the --skip-insertions row
		var degapped []byte
		for i := 0; i < len(refRow) && i < len(queryRow); i++ {
			if refRow[i] != '-' {
				degapped = append(degapped, queryRow[i])
			}
		}
		if string(degapped) != "ACGTACGTNN" {
			t.Errorf("%s: query row without the reference-gap columns is %q, want ACGTACGTNN (the toMultiAlign --pad row)", second, degapped)
		}
	}
}
