// copy to: pkg/sam/
//
// sam toPairAlign: two non-overlapping records of one query that each have an insertion at the
// same reference position (the first record ENDS with 1I, the next one BEGINS with 2I: the
// query's 3-base insertion is split between them) - the two insertions are laid over each other
// instead of side by side: inserted bases are lost, an 'N' and a '-' appear in insertion columns.
package sam

import (
	"os"
	"path/filepath"
	"strings"
	"testing"
)

func bug3Run(t *testing.T, samTxt string) (refRow, queryRow string) {
	t.Helper()
	dir := t.TempDir()
	err := ToPairAlign(strings.NewReader(samTxt), strings.NewReader(">ref\nACGTACGTAC\n"), dir, -1, -1, -1, false, false, 1)
	if err != nil {
		t.Fatalf("ToPairAlign: %v", err)
	}
	b, err := os.ReadFile(filepath.Join(dir, "q1.fasta"))
	if err != nil {
		t.Fatal(err)
	}
	lines := strings.Split(strings.TrimRight(string(b), "\n"), "\n")
	if len(lines) != 4 {
		t.Fatalf("unexpected output:\n%s", b)
	}
	return lines[1], lines[3]
}

func TestBug3InsertionsOfTwoRecordsAtOnePosition(t *testing.T) {
	header := "@HD\tVN:1.6\n@SQ\tSN:ref\tLN:10\n"
	// the query is ACGTA TGC CGTAC (13 bases): reference 1-5, a 3-base insertion TGC, reference 6-10
	inputs := map[string]string{
		// control (passes): the whole alignment in one record
		"one record": header + "q1\t0\tref\t1\t60\t5M3I5M\t*\t0\t0\tACGTATGCCGTAC\t*\n",
		// query bases 1-6 in the primary record (rest soft-clipped), 7-13 in the supplementary one
		// (rest hard-clipped): no reference position and no query base is in both records
		"two records": header +
			"q1\t0\tref\t1\t60\t5M1I7S\t*\t0\t0\tACGTATGCCGTAC\t*\n" +
			"q1\t2048\tref\t6\t60\t6H2I5M\t*\t0\t0\tGCCGTAC\t*\n",
	}
	for _, name := range []string{"one record", "two records"} {
		refRow, queryRow := bug3Run(t, inputs[name])
		if refRow != "ACGTA---CGTAC" || queryRow != "ACGTATGCCGTAC" {
			t.Errorf("%s:\n got ref   %s\n got query %s\nwant ref   ACGTA---CGTAC\nwant query ACGTATGCCGTAC", name, refRow, queryRow)
		}
		// the property, piece by piece
		if len(refRow) != len(queryRow) {
			t.Errorf("%s: rows of different length", name)
			continue
		}
		var inserted []byte
		for i := range refRow {
			if refRow[i] == '-' {
				inserted = append(inserted, queryRow[i])
			}
		}
		if string(inserted) != "TGC" {
			t.Errorf("%s: the query row has %q in the reference-gap columns, the inserted query bases are TGC", name, inserted)
		}
	}
}
