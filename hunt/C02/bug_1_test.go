// copy to: pkg/sam/
//
// sam toPairAlign: an insertion that one record writes as two equal-length I operations
// ("3M1I1P1I3M", "3M1I1I3M") is taken for ONE insertion ("shared by overlapping records"):
// the reference row loses reference bases / other records of the query are shifted.
package sam

import (
	"os"
	"path/filepath"
	"strings"
	"testing"
)

func bug1Run(t *testing.T, samTxt, refTxt string, threads int) (refRow, queryRow string) {
	t.Helper()
	dir := t.TempDir()
	err := ToPairAlign(strings.NewReader(samTxt), strings.NewReader(refTxt), dir, -1, -1, -1, false, false, threads)
	if err != nil {
		t.Fatalf("ToPairAlign: %v", err)
	}
	b, err := os.ReadFile(filepath.Join(dir, "q1.fasta"))
	if err != nil {
		t.Fatal(err)
	}
	lines := strings.Split(strings.TrimRight(string(b), "\n"), "\n")
	if len(lines) != 4 {
		t.Fatalf("unexpected output:\n%s", b)
	}
	return lines[1], lines[3]
}

func bug1Check(t *testing.T, what, ref, refRow, queryRow, wantRef, wantQuery string) {
	t.Helper()
	if len(refRow) != len(queryRow) {
		t.Errorf("%s: rows differ in length: %q / %q", what, refRow, queryRow)
	}
	if got := strings.ReplaceAll(refRow, "-", ""); got != ref {
		t.Errorf("%s: reference row %q without '-' is %q, want the reference %q", what, refRow, got, ref)
	}
	if refRow != wantRef || queryRow != wantQuery {
		t.Errorf("%s:\n got ref   %s\n got query %s\nwant ref   %s\nwant query %s", what, refRow, queryRow, wantRef, wantQuery)
	}
}

const bug1Header = "@HD\tVN:1.6\n@SQ\tSN:ref\tLN:10\n"
const bug1Ref = "ACGTACGTAC"

// one record; the 2-column insertion after reference base 3 is written 1I1P1I (padded SAM) or 1I1I
func TestBug1SingleRecord(t *testing.T) {
	for _, cigar := range []string{"3M2I3M" /* control: passes */, "3M1I1P1I3M", "3M1I1I3M"} {
		sam := bug1Header + "q1\t0\tref\t1\t60\t" + cigar + "\t*\t0\t0\tACGGGTAC\t*\n"
		r, q := bug1Run(t, sam, ">ref\n"+bug1Ref+"\n", 1)
		bug1Check(t, cigar, bug1Ref, r, q, "ACG--TACGTAC", "ACGGGTACNNNN")
	}
}

// two non-overlapping records of one query; the first carries the insertion
func TestBug1TwoRecords(t *testing.T) {
	for _, cigar := range []string{"3M2I1M5H" /* control: passes */, "3M1I1P1I1M5H"} {
		sam := bug1Header +
			"q1\t0\tref\t1\t60\t" + cigar + "\t*\t0\t0\tACGGGT\t*\n" +
			"q1\t2048\tref\t6\t60\t6H5M\t*\t0\t0\tCGTAC\t*\n"
		r, q := bug1Run(t, sam, ">ref\n"+bug1Ref+"\n", 1)
		bug1Check(t, cigar, bug1Ref, r, q, "ACG--TACGTAC", "ACGGGTNCGTAC")
	}
}
