// copy to: pkg/fastaio/
package fastaio

import (
	"strings"
	"testing"
)

// getAlignmentDims is the sixth FASTA scanner of the project (next to ReadAlignment,
// ReadEncodeAlignment, ReadEncodeScoreAlignment, ReadEncodeAlignmentToList and
// variants.findReference). Blank lines carry no information and must not crash a reader:
// the five other scanners skip them, this one indexes line[0] of every line.
func TestBug1GetAlignmentDimsBlankLine(t *testing.T) {
	layouts := map[string]string{
		"no blank line (control)":       ">a\nAC\nGT\n>b\nACGT\n",
		"blank line inside a record":    ">a\nAC\n\nGT\n>b\nACGT\n",
		"blank line between records":    ">a\nACGT\n\n>b\nACGT\n",
		"blank line at the end":         ">a\nACGT\n>b\nACGT\n\n",
		"blank line at the start":       "\n>a\nACGT\n>b\nACGT\n",
		"CRLF file with a blank line":   ">a\r\nAC\r\n\r\nGT\r\n>b\r\nACGT\r\n",
		"only a blank line (no record)": "\n",
	}

	for name, data := range layouts {
		name, data := name, data
		t.Run(name, func(t *testing.T) {
			defer func() {
				if r := recover(); r != nil {
					t.Errorf("getAlignmentDims panicked on %q: %v", data, r)
				}
			}()

			n, l, err := getAlignmentDims(strings.NewReader(data))
			if data == "\n" {
				// either (0, 0) or an error would do; a crash does not
				return
			}
			if err != nil {
				t.Errorf("unexpected error on %q: %v", data, err)
				return
			}
			if n != 2 || l != 4 {
				t.Errorf("getAlignmentDims(%q) = (%d records, width %d), want (2, 4)", data, n, l)
			}

			// the same bytes are read without complaint by the list reader
			recs, err := ReadEncodeAlignmentToList(strings.NewReader(data), false)
			if err != nil || len(recs) != 2 || len(recs[0].Seq) != 4 {
				t.Errorf("control: ReadEncodeAlignmentToList(%q) = %v, %v", data, recs, err)
			}
		})
	}
}
