// copy to: pkg/gff/
package gff

import (
	"errors"
	"io"
	"strings"
	"testing"
)

// a reader that delivers the first n bytes of s and then fails
type failAfter struct {
	s   string
	n   int
	pos int
	err error
}

func (f *failAfter) Read(p []byte) (int, error) {
	if f.pos >= f.n {
		return 0, f.err
	}
	end := f.pos + len(p)
	if end > f.n {
		end = f.n
	}
	c := copy(p, f.s[f.pos:end])
	f.pos += c
	return c, nil
}

// The reader of the ##FASTA section of a gff file is a FASTA reader like any other: the
// stream it is given is either read or rejected with an error. ReadGFF never looks at the
// error of its scanner, so a read that fails in the middle of the ##FASTA section yields a
// truncated reference sequence and a nil error.
func TestBug3GFFFastaReadFaultIsSwallowed(t *testing.T) {
	gffText := "##gff-version 3\n" +
		"ref\t.\tgene\t1\t12\t.\t+\t.\tID=gene1;Name=g\n" +
		"##FASTA\n" +
		">ref the reference\n" +
		"ACGTAC\n" +
		"GTACGT\n"

	// control: the whole file
	g, err := ReadGFF(strings.NewReader(gffText))
	if err != nil {
		t.Fatal(err)
	}
	if g.FASTA["ref"].Seq != "ACGTACGTACGT" {
		t.Fatalf("control: got %q", g.FASTA["ref"].Seq)
	}

	ioErr := errors.New("input/output error")

	// the read fails at every possible offset inside the ##FASTA section
	start := strings.Index(gffText, ">ref")
	for n := start; n < len(gffText); n++ {
		var r io.Reader = &failAfter{s: gffText, n: n, err: ioErr}
		g, err := ReadGFF(r)
		if err == nil {
			t.Errorf("read fault after %d of %d bytes: ReadGFF returned no error; reference read as %q (whole: %q)",
				n, len(gffText), g.FASTA["ref"].Seq, "ACGTACGTACGT")
		}
	}
}
