// copy to: pkg/fastaio/
package fastaio

import (
	"strings"
	"testing"

	"github.com/virus-evolution/gofasta/pkg/encoding"
)

func readScored(t *testing.T, data string, hardGaps bool) []EncodedFastaRecord {
	t.Helper()
	cFR := make(chan EncodedFastaRecord)
	cErr := make(chan error)
	cDone := make(chan bool)
	go ReadEncodeScoreAlignment(strings.NewReader(data), hardGaps, cFR, cErr, cDone)
	out := make([]EncodedFastaRecord, 0)
	for {
		select {
		case fr := <-cFR:
			out = append(out, fr)
		case err := <-cErr:
			t.Fatal(err)
		case <-cDone:
			return out
		}
	}
}

// The completeness score that the scoring reader attaches to a record has to be the score of
// that record's sequence (encoding.MakeScoreArray: A/C/G/T 12, two-fold codes 6, three-fold
// codes 4, N - ? 3). hardGaps only chooses the byte that encodes '-' (4 instead of 244); it
// must not change the score. encoding.MakeEncodedScoreArray has no entry for the hard-gap code
// 4, so with hardGaps == true every '-' scores 0 instead of 3.
func TestBug2ScoreOfGapsWithHardGaps(t *testing.T) {
	data := ">s1 first\nAC-GT-\n>s2 second\n------\n>s3\nacgtnN\n"
	seqs := []string{"AC-GT-", "------", "ACGTNN"}

	scoreOf := func(seq string) int64 {
		SA := encoding.MakeScoreArray()
		var s int64
		for i := 0; i < len(seq); i++ {
			s += SA[seq[i]]
		}
		return s
	}

	soft := readScored(t, data, false)
	hard := readScored(t, data, true)

	if len(soft) != 3 || len(hard) != 3 {
		t.Fatalf("expected 3 records, got %d and %d", len(soft), len(hard))
	}

	for i := range seqs {
		want := scoreOf(seqs[i])

		// the records themselves agree (the sequences decode to the same text)
		if soft[i].Decode().Seq != seqs[i] || hard[i].Decode().Seq != seqs[i] {
			t.Errorf("record %d: sequences: soft %q hard %q want %q", i, soft[i].Decode().Seq, hard[i].Decode().Seq, seqs[i])
		}
		if soft[i].Score != want {
			t.Errorf("record %d (%s), hardGaps=false: score %d, want %d", i, seqs[i], soft[i].Score, want)
		}
		if hard[i].Score != want {
			t.Errorf("record %d (%s), hardGaps=true: score %d, want %d (the score of the sequence, as with hardGaps=false: %d)", i, seqs[i], hard[i].Score, want, soft[i].Score)
		}
		if hard[i].Count_A != soft[i].Count_A || hard[i].Count_C != soft[i].Count_C || hard[i].Count_G != soft[i].Count_G || hard[i].Count_T != soft[i].Count_T {
			t.Errorf("record %d: base counts differ between hardGaps settings", i)
		}
	}
}
