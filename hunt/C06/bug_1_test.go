// copy to: pkg/closest/
//
// closest --measure tn93: the base composition of the QUERY is never computed, so the
// "TN93 distance of the pair" is evaluated with the composition of the target alone.
// Consequences checked here (all deterministic, any -t):
//   1. a target that agrees with the query at every jointly resolved site, but whose own
//      resolved bases happen to be pyrimidines only, gets the distance NaN ("undefined")
//      although jointly resolved sites exist; it is neither returned as the closest target
//      nor listed by -d;
//   2. the distance listed for the pair (A,B) differs from the one listed for (B,A);
//   3. the order of the returned targets differs from the order by TN93 distance.
package closest

import (
	"bytes"
	"math"
	"strconv"
	"strings"
	"testing"
)

// refTN93 is Tamura & Nei's (1993) equation 7 with the equilibrium base frequencies
// estimated from the two sequences of the pair (what pkg/closest/closest.go:65-75 says it does:
// "Total ATGC length of the two sequences", "from the pair's sequence data").
// Only A, C, G, T and N occur in the sequences of this test.
func refTN93(q, t string) float64 {
	cnt := map[byte]float64{}
	for i := 0; i < len(q); i++ {
		cnt[q[i]]++
		cnt[t[i]]++
	}
	L := cnt['A'] + cnt['C'] + cnt['G'] + cnt['T']
	gA, gC, gG, gT := cnt['A']/L, cnt['C']/L, cnt['G']/L, cnt['T']/L
	gR, gY := gA+gG, gC+gT
	k1 := 2 * gA * gG / gR
	k2 := 2 * gT * gC / gY
	k3 := 2 * (gR*gY - gA*gG*gY/gR - gT*gC*gR/gY)
	var p1, p2, d, n float64
	for i := 0; i < len(q); i++ {
		a, b := q[i], t[i]
		if a == 'N' || b == 'N' {
			continue
		}
		n++
		if a == b {
			continue
		}
		d++
		switch string([]byte{a, b}) {
		case "AG", "GA":
			p1++
		case "CT", "TC":
			p2++
		}
	}
	P1, P2, Q := p1/n, p2/n, (d-p1-p2)/n
	w1 := 1 - P1/k1 - Q/(2*gR)
	w2 := 1 - P2/k2 - Q/(2*gY)
	w3 := 1 - Q/(2*gR*gY)
	return -k1*math.Log(w1) - k2*math.Log(w2) - k3*math.Log(w3) + 0.0
}

func runClosest(t *testing.T, q, tg string) string {
	t.Helper()
	out := new(bytes.Buffer)
	if err := Closest(strings.NewReader(q), strings.NewReader(tg), "tn93", out, 1); err != nil {
		t.Fatal(err)
	}
	return out.String()
}

func runClosestN(t *testing.T, n int, d float64, table bool, q, tg string) string {
	t.Helper()
	out := new(bytes.Buffer)
	if err := ClosestN(n, d, strings.NewReader(q), strings.NewReader(tg), "tn93", out, table, 1); err != nil {
		t.Fatal(err)
	}
	return out.String()
}

// 1. five jointly resolved sites, all identical: the distance is defined and is 0.
func TestBug1Tn93TargetWithoutPurines(t *testing.T) {
	query := ">q\nACGTACGTAC\n"
	target := ">t1\nNCNTNCNTNC\n>t2\nACGTACGTAA\n"

	if d := refTN93("ACGTACGTAC", "NCNTNCNTNC"); d != 0 {
		t.Fatalf("reference: %v", d)
	}

	want := "query,closest,distance,SNPs\nq,t1,0.000000000,\n"
	if got := runClosest(t, query, target); got != want {
		t.Errorf("closest -m tn93:\ngot:\n%swant:\n%s", got, want)
	}

	want = "query,closest\nq,t1\n"
	if got := runClosestN(t, 1, -1.0, false, query, target); got != want {
		t.Errorf("closest -m tn93 -n 1:\ngot:\n%swant:\n%s", got, want)
	}

	want = "query,target,distance\nq,t1,0.000000000\n"
	if got := runClosestN(t, 0, 0.05, true, query, target); got != want {
		t.Errorf("closest -m tn93 -d 0.05 --table:\ngot:\n%swant:\n%s", got, want)
	}
}

// 2. the distance listed for a pair does not depend on which of the two is the query
func TestBug1Tn93DistanceOfThePair(t *testing.T) {
	a := "ACGTACGTAC"
	b := "ACGTACGTAA"
	ab := runClosestN(t, 1, -1.0, true, ">x\n"+a+"\n", ">y\n"+b+"\n")
	ba := runClosestN(t, 1, -1.0, true, ">x\n"+b+"\n", ">y\n"+a+"\n")
	if ab != ba {
		t.Errorf("tn93 distance of the same pair listed differently:\nquery a, target b:\n%squery b, target a:\n%s", ab, ba)
	}
	want := "query,target,distance\nx,y," + strconv.FormatFloat(refTN93(a, b), 'f', 9, 64) + "\n"
	if ab != want {
		t.Errorf("got:\n%swant:\n%s", ab, want)
	}
}

// 3. the returned targets are not in the order of their TN93 distance to the query
func TestBug1Tn93Order(t *testing.T) {
	q := "GCCAAAAGAAGAGCATTTAGGCTG"
	t1 := "GGCAAAAGAAGANNNNNNNNNTTG"
	t2 := "GACANNNNNNNNGCATTAAGGCTC"
	d1, d2 := refTN93(q, t1), refTN93(q, t2)
	if !(d1 < d2-0.01) { // 0.180 and 0.225
		t.Fatalf("reference: %v %v", d1, d2)
	}
	query := ">q\n" + q + "\n"
	target := ">t1\n" + t1 + "\n>t2\n" + t2 + "\n"

	if got := runClosest(t, query, target); !strings.HasPrefix(got, "query,closest,distance,SNPs\nq,t1,"+strconv.FormatFloat(d1, 'f', 9, 64)+",") {
		t.Errorf("closest -m tn93: t1 is at %.9f, t2 at %.9f, got:\n%s", d1, d2, got)
	}

	want := "query,target,distance\nq,t1," + strconv.FormatFloat(d1, 'f', 9, 64) + "\nq,t2," + strconv.FormatFloat(d2, 'f', 9, 64) + "\n"
	if got := runClosestN(t, 2, -1.0, true, query, target); got != want {
		t.Errorf("closest -m tn93 -n 2 --table:\ngot:\n%swant:\n%s", got, want)
	}

	// -d 0.2 keeps t1 (0.180) only
	want = "query,closest\nq,t1\n"
	if got := runClosestN(t, 0, 0.2, false, query, target); got != want {
		t.Errorf("closest -m tn93 -d 0.2:\ngot:\n%swant:\n%s", got, want)
	}
}
