// copy to: pkg/sam/
package sam

// Counterexample: SAM records that are valid by the SAM specification and carry optional fields with an
// EMPTY value are not converted at all:
//   - TAG:Z: (empty string; the spec's pattern for Z is [ !-~]*), e.g. "MM:Z:" on a read without base
//     modifications, and TAG:H: (empty hex string, pattern ([0-9A-F][0-9A-F])*): ToMultiAlign returns
//     `sam: invalid aux tag field` and writes no FASTA record at all;
//   - TAG:B:C (numeric array without elements; pattern [cCsSiIf](,number)*), e.g. "ML:B:C": the process
//     dies with "index out of range [1] with length 1" in the reader goroutine.
// The optional fields have no bearing on the projection; the alignment columns are perfectly usual.

import (
	"bytes"
	"os"
	"os/exec"
	"strings"
	"testing"
)

const bug2Hdr = "@SQ\tSN:ref\tLN:10\n"

const bug2Want = ">q1\n-ACGT-----\n>q2\n--CGTA----\n"

func bug2Sam(aux string) string {
	return bug2Hdr +
		"q1\t0\tref\t2\t60\t4M\t*\t0\t0\tACGT\t*\tNM:i:0\t" + aux + "\n" +
		"q2\t0\tref\t3\t60\t4M\t*\t0\t0\tCGTA\t*\tNM:i:0\n"
}

func TestBug2EmptyStringOptionalField(t *testing.T) {
	for _, aux := range []string{"MM:Z:", "XX:H:"} {
		var out bytes.Buffer
		err := ToMultiAlign(strings.NewReader(bug2Sam(aux)), &out, -1, -1, -1, false, 1)
		if err != nil {
			t.Errorf("optional field %q: ToMultiAlign refused a valid SAM file: %v", aux, err)
		}
		if out.String() != bug2Want {
			t.Errorf("optional field %q: got %q, want %q", aux, out.String(), bug2Want)
		}
	}
}

// The empty B array kills the process from a goroutine (no recover possible), so the conversion is run in a
// child process: the test binary re-executes itself.
func TestBug2EmptyArrayOptionalField(t *testing.T) {
	if os.Getenv("BUG2_CHILD") == "1" {
		var out bytes.Buffer
		err := ToMultiAlign(strings.NewReader(bug2Sam("MM:Z:C+m?;\tML:B:C")), &out, -1, -1, -1, false, 1)
		if err != nil {
			os.Stdout.WriteString("ERROR: " + err.Error() + "\n")
			os.Exit(3)
		}
		os.Stdout.WriteString(out.String())
		os.Exit(0)
	}
	cmd := exec.Command(os.Args[0], "-test.run=^TestBug2EmptyArrayOptionalField$")
	cmd.Env = append(os.Environ(), "BUG2_CHILD=1")
	var stdout, stderr bytes.Buffer
	cmd.Stdout = &stdout
	cmd.Stderr = &stderr
	err := cmd.Run()
	if err != nil {
		first := strings.SplitN(stderr.String(), "\n", 2)[0]
		t.Fatalf("ML:B:C (array without elements): conversion did not complete: %v; stdout %q; stderr starts %q", err, stdout.String(), first)
	}
	if stdout.String() != bug2Want {
		t.Errorf("ML:B:C: got %q, want %q", stdout.String(), bug2Want)
	}
}
