// copy to: pkg/sam/
package sam

// Counterexample: the SAM header lists two @SQ lines (e.g. the file was made with a reference FASTA that
// also holds a decoy/control sequence), and EVERY alignment record is to the same one reference, "ref",
// which is not the first @SQ line. ToMultiAlign takes the length of the FIRST @SQ line as "the reference
// length", whatever RNAME the records name: rows get the wrong length (silently), --start/--end are checked
// against the wrong length, or the process dies when POS+span exceeds the first @SQ's LN.

import (
	"bytes"
	"os"
	"os/exec"
	"strings"
	"testing"
)

const bug3Records = "q1\t0\tref\t1\t60\t6M\t*\t0\t0\tACGTAC\t*\n" +
	"q2\t0\tref\t2\t60\t3M\t*\t0\t0\tCGT\t*\n"

// all records align to "ref" (LN:6); a longer sequence nothing aligns to is listed first
func TestBug3ReferenceLengthLongerFirstSQ(t *testing.T) {
	samFile := "@HD\tVN:1.6\tSO:unsorted\n@SQ\tSN:decoy\tLN:10\n@SQ\tSN:ref\tLN:6\n" + bug3Records
	want := ">q1\nACGTAC\n>q2\n-CGT--\n"

	var out bytes.Buffer
	if err := ToMultiAlign(strings.NewReader(samFile), &out, -1, -1, -1, false, 1); err != nil {
		t.Fatal(err)
	}
	if out.String() != want {
		t.Errorf("rows must have the length of the reference the records are aligned to (6):\n got %q\nwant %q", out.String(), want)
	}

	// the same records with "ref" as the only / the first @SQ line give the wanted output: the result
	// depends on header lines about a sequence that no record refers to
	out.Reset()
	samFile = "@HD\tVN:1.6\tSO:unsorted\n@SQ\tSN:ref\tLN:6\n@SQ\tSN:decoy\tLN:10\n" + bug3Records
	if err := ToMultiAlign(strings.NewReader(samFile), &out, -1, -1, -1, false, 1); err != nil {
		t.Fatal(err)
	}
	if out.String() != want {
		t.Errorf("control (ref listed first): got %q want %q", out.String(), want)
	}

	// --end beyond the reference the records are aligned to must be refused (it is, when ref is listed first)
	out.Reset()
	samFile = "@HD\tVN:1.6\tSO:unsorted\n@SQ\tSN:decoy\tLN:10\n@SQ\tSN:ref\tLN:6\n" + bug3Records
	if err := ToMultiAlign(strings.NewReader(samFile), &out, -1, 2, 9, false, 1); err == nil {
		t.Errorf("--start 2 --end 9 accepted although the reference has 6 positions; output %q", out.String())
	}
}

// all records align to "ref" (LN:10); a shorter sequence nothing aligns to is listed first: the process dies
func TestBug3ReferenceLengthShorterFirstSQ(t *testing.T) {
	samFile := "@HD\tVN:1.6\tSO:unsorted\n@SQ\tSN:phiX\tLN:4\n@SQ\tSN:ref\tLN:10\n" +
		"q1\t0\tref\t3\t60\t6M\t*\t0\t0\tACGTAC\t*\n"
	want := ">q1\n--ACGTAC--\n"

	if os.Getenv("BUG3_CHILD") == "1" {
		var out bytes.Buffer
		err := ToMultiAlign(strings.NewReader(samFile), &out, -1, -1, -1, false, 1)
		if err != nil {
			os.Stdout.WriteString("ERROR: " + err.Error() + "\n")
			os.Exit(3)
		}
		os.Stdout.WriteString(out.String())
		os.Exit(0)
	}
	cmd := exec.Command(os.Args[0], "-test.run=^TestBug3ReferenceLengthShorterFirstSQ$")
	cmd.Env = append(os.Environ(), "BUG3_CHILD=1")
	var stdout, stderr bytes.Buffer
	cmd.Stdout = &stdout
	cmd.Stderr = &stderr
	if err := cmd.Run(); err != nil {
		first := strings.SplitN(stderr.String(), "\n", 2)[0]
		t.Fatalf("conversion did not complete: %v; stdout %q; stderr starts %q", err, stdout.String(), first)
	}
	if stdout.String() != want {
		t.Errorf("got %q, want %q", stdout.String(), want)
	}
}
