// copy to: pkg/sam/
package sam

// Counterexample: a SAM SEQ that uses '=' ("base identical to the reference base", SAM spec 1.4, as
// written by `samtools calmd -e`) is projected correctly, but swapInGapsNs does not count '=' as an
// aligned base when it looks for the first/last aligned base of the query. Uncovered positions that lie
// BETWEEN aligned bases are then written as '-' (a deletion / outside the alignment) instead of 'N'.

import (
	"bytes"
	"strings"
	"testing"
)

func bug1Run(t *testing.T, sam string, pad bool) []string {
	t.Helper()
	var out bytes.Buffer
	if err := ToMultiAlign(strings.NewReader(sam), &out, -1, -1, -1, pad, 1); err != nil {
		t.Fatalf("ToMultiAlign: %v", err)
	}
	return strings.Split(strings.TrimSuffix(out.String(), "\n"), "\n")
}

func TestBug1EqualsSignIsAnAlignedBase(t *testing.T) {
	hdr := "@SQ\tSN:ref\tLN:10\n"

	cases := []struct {
		name string
		sam  string
		// columns (0-based) that no record covers but that lie between the first and the last aligned base
		between []int
		// columns before the first / after the last aligned base
		outside []int
		// columns that hold an aligned base
		aligned []int
	}{
		{
			// one record, reference skip in the middle, every base equal to the reference
			name:    "one record 2M3N2M, SEQ ====",
			sam:     hdr + "q1\t0\tref\t1\t60\t2M3N2M\t*\t0\t0\t====\t*\n",
			between: []int{2, 3, 4}, outside: []int{7, 8, 9}, aligned: []int{0, 1, 5, 6},
		},
		{
			// the first aligned base equals the reference, the others do not
			name:    "one record 1M2N3M, SEQ =CGT",
			sam:     hdr + "q1\t0\tref\t1\t60\t1M2N3M\t*\t0\t0\t=CGT\t*\n",
			between: []int{1, 2}, outside: []int{6, 7, 8, 9}, aligned: []int{0, 3, 4, 5},
		},
		{
			// the last aligned base equals the reference
			name:    "one record 3M2N1M, SEQ ACG=",
			sam:     hdr + "q1\t0\tref\t3\t60\t3M2N1M\t*\t0\t0\tACG=\t*\n",
			between: []int{5, 6}, outside: []int{0, 1, 8, 9}, aligned: []int{2, 3, 4, 7},
		},
		{
			// primary + supplementary record with an uncovered stretch between them
			name: "two records, === at 1 and ACG at 8",
			sam: hdr + "q1\t0\tref\t1\t60\t3M3H\t*\t0\t0\t===\t*\n" +
				"q1\t2048\tref\t8\t60\t3H3M\t*\t0\t0\tACG\t*\n",
			between: []int{3, 4, 5, 6}, outside: nil, aligned: []int{0, 1, 2, 7, 8, 9},
		},
	}

	for _, c := range cases {
		lines := bug1Run(t, c.sam, false)
		if len(lines) != 2 || lines[0] != ">q1" {
			t.Errorf("%s: unexpected output %q", c.name, lines)
			continue
		}
		row := lines[1]
		if len(row) != 10 {
			t.Errorf("%s: row %q has length %d, want 10", c.name, row, len(row))
			continue
		}
		for _, i := range c.aligned {
			if row[i] == '-' || row[i] == '*' || row[i] == 'N' {
				t.Errorf("%s: row %q: column %d holds an aligned base but shows %q", c.name, row, i, row[i])
			}
		}
		for _, i := range c.between {
			if row[i] != 'N' {
				t.Errorf("%s: row %q: column %d is uncovered and lies between the first and last aligned base: want 'N', got %q",
					c.name, row, i, row[i])
			}
		}
		for _, i := range c.outside {
			if row[i] != '-' {
				t.Errorf("%s: row %q: column %d lies outside the first/last aligned base: want '-', got %q",
					c.name, row, i, row[i])
			}
		}
	}
}
