// copy to: pkg/sam/
//
// sam toPairAlign / sam variants: a --reference that is narrower than the reference the SAM
// alignments were made against (alignment runs past the end of --reference) is not refused:
// the command succeeds and the reference row is completed with NUL bytes read from beyond the
// end of the reference sequence.
//
// The commands are run in a child process (the test binary re-executed), so that ANY non-zero
// exit - an error returned or a panic - counts as "refused". The test fails only if the child
// exits 0, i.e. the inconsistent input was accepted.
//
// Deterministic (fails every time on the current code).
package sam

import (
	"bytes"
	"os"
	"os/exec"
	"path/filepath"
	"strings"
	"testing"
)

const bug1GFF = "##gff-version 3\n" +
	"##sequence-region ref 1 10\n" +
	"ref\tx\tCDS\t1\t9\t.\t+\t0\tID=c1;Name=g1\n"

func bug1Helper() {
	dir := os.Getenv("BUG1_DIR")
	samIn, err := os.Open(filepath.Join(dir, "in.sam"))
	if err != nil {
		os.Exit(3)
	}
	refIn, err := os.Open(filepath.Join(dir, "ref.fasta"))
	if err != nil {
		os.Exit(3)
	}
	switch os.Getenv("BUG1_CMD") {
	case "topa":
		err = ToPairAlign(samIn, refIn, filepath.Join(dir, "out"), -1, -1, -1, false, false, 1)
	case "variants":
		out, _ := os.Create(filepath.Join(dir, "out.csv"))
		err = Variants(samIn, refIn, true, strings.NewReader(bug1GFF), "gff", out, -1, -1, false, 0.0, false, 1)
		out.Close()
	}
	if err != nil {
		os.Stderr.WriteString(err.Error() + "\n")
		os.Exit(1)
	}
	os.Exit(0)
}

func TestBug1ReferenceNarrowerThanSamAlignment(t *testing.T) {
	if os.Getenv("BUG1_HELPER") == "1" {
		bug1Helper()
		return
	}

	type tc struct {
		name, cmd, ref, sam string
	}

	// reference of 1000 bases, alignment made against a reference of 1010 bases
	ref1000 := strings.Repeat("ACGT", 250)
	seq1010 := ref1000 + "ACGTACGTAC"

	cases := []tc{
		{
			// --reference has 10 bases; the SAM was made against a reference of 12 bases (@SQ LN:12)
			// and the only record aligns all 12 of them (12M)
			name: "toPairAlign, reference 10 wide, alignment 12 wide",
			cmd:  "topa",
			ref:  ">ref\nACGTACGTAC\n",
			sam:  "@SQ\tSN:ref\tLN:12\nq1\t0\tref\t1\t60\t12M\t*\t0\t0\tACGTACGTACGG\t*\n",
		},
		{
			name: "toPairAlign, reference 1000 wide, alignment 1010 wide",
			cmd:  "topa",
			ref:  ">ref\n" + ref1000 + "\n",
			sam:  "@SQ\tSN:ref\tLN:1010\nq1\t0\tref\t1\t60\t1010M\t*\t0\t0\t" + seq1010 + "\t*\n",
		},
		{
			name: "sam variants, reference 10 wide, alignment 12 wide",
			cmd:  "variants",
			ref:  ">ref\nACGTACGTAC\n",
			sam:  "@SQ\tSN:ref\tLN:12\nq1\t0\tref\t1\t60\t12M\t*\t0\t0\tACGTACGTACGG\t*\n",
		},
	}

	for _, c := range cases {
		dir := t.TempDir()
		if err := os.WriteFile(filepath.Join(dir, "in.sam"), []byte(c.sam), 0644); err != nil {
			t.Fatal(err)
		}
		if err := os.WriteFile(filepath.Join(dir, "ref.fasta"), []byte(c.ref), 0644); err != nil {
			t.Fatal(err)
		}

		child := exec.Command(os.Args[0], "-test.run=^TestBug1ReferenceNarrowerThanSamAlignment$")
		child.Env = append(os.Environ(), "BUG1_HELPER=1", "BUG1_DIR="+dir, "BUG1_CMD="+c.cmd)
		var stderr bytes.Buffer
		child.Stderr = &stderr
		err := child.Run()

		if err != nil {
			// non-zero exit (error or panic): the inconsistent input was refused, as the property demands
			continue
		}

		// exit status 0: the input was accepted
		switch c.cmd {
		case "topa":
			got, _ := os.ReadFile(filepath.Join(dir, "out", "q1.fasta"))
			tail := got
			if len(tail) > 60 {
				tail = tail[len(tail)-60:]
			}
			t.Errorf("%s: accepted with exit status 0 (want a non-zero exit); the output file has %d NUL byte(s); its last bytes: %q",
				c.name, bytes.Count(got, []byte{0}), tail)
		case "variants":
			got, _ := os.ReadFile(filepath.Join(dir, "out.csv"))
			t.Errorf("%s: accepted with exit status 0 (want a non-zero exit); output: %q", c.name, got)
		}
	}
}
