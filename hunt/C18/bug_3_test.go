// copy to: pkg/sam/
//
// sam toMultiAlign / toPairAlign / variants: a non-IUPAC symbol in the SEQ field of a SAM record
// is not refused. The commands exit 0; the symbol is silently turned into 'N' ('Z', '!', 'U', '*',
// '-'), into a real base (the digits 0,1,2,3 become A,C,G,T - `sam variants` then even reports an
// amino acid change called from a digit), or is copied as it is into the output alignment ('=').
// The same symbols in a FASTA input of any command are refused ("invalid nucleotide in fasta file").
//
// Deterministic (fails every time on the current code).
package sam

import (
	"bytes"
	"strings"
	"testing"
)

func TestBug3NonIUPACSymbolInSamSeq(t *testing.T) {

	reference := ">ref\nACGTACGTAC\n"
	gffText := "##gff-version 3\n" +
		"##sequence-region ref 1 10\n" +
		"ref\tx\tCDS\t1\t9\t.\t+\t0\tID=c1;Name=g1\n"

	mksam := func(seqs ...string) string {
		s := "@SQ\tSN:ref\tLN:10\n"
		for i, seq := range seqs {
			s += "q" + string(rune('1'+i)) + "\t0\tref\t1\t60\t10M\t*\t0\t0\t" + seq + "\t*\n"
		}
		return s
	}

	// sanity: a clean SAM file is accepted
	{
		out := new(bytes.Buffer)
		if err := ToMultiAlign(strings.NewReader(mksam("ACGTACGTAC", "ACGTRCGTAN")), out, -1, -1, -1, false, 1); err != nil {
			t.Fatalf("valid SAM refused: %v", err)
		}
	}

	cases := []struct {
		what string
		sam  string
	}{
		{"'Z' in the only record", mksam("ACGTZCGTAC")},
		{"'!' in the only record", mksam("ACGT!CGTAC")},
		{"digit '1' in the only record", mksam("ACGT1CGTAC")},
		{"'Z' in the first of three records", mksam("ZCGTACGTAC", "ACGTACGTAC", "ACGTACGTAC")},
		{"'!' in the middle one of three records", mksam("ACGTACGTAC", "ACGT!CGTAC", "ACGTACGTAC")},
		{"'Z' in the last of three records", mksam("ACGTACGTAC", "ACGTACGTAC", "ACGTACGTAZ")},
	}

	for _, c := range cases {
		t.Run("toMultiAlign: "+c.what, func(t *testing.T) {
			out := new(bytes.Buffer)
			err := ToMultiAlign(strings.NewReader(c.sam), out, -1, -1, -1, false, 1)
			if err == nil {
				t.Errorf("non-IUPAC symbol in SEQ accepted: ToMultiAlign returned nil (exit status 0) and wrote %q", out.String())
			}
		})
		t.Run("sam variants: "+c.what, func(t *testing.T) {
			out := new(bytes.Buffer)
			err := Variants(strings.NewReader(c.sam), strings.NewReader(reference), true, strings.NewReader(gffText), "gff", out, -1, -1, false, 0.0, false, 1)
			if err == nil {
				t.Errorf("non-IUPAC symbol in SEQ accepted: Variants returned nil (exit status 0) and wrote %q", out.String())
			}
		})
	}
}
