// copy to: pkg/variants/
//
// gofasta variants (and gofasta sam variants, which reports through the same two writer
// functions): the window options --start / --end are never validated. A window with
// start > end, or with a coordinate outside 1..reference length, is accepted: the command
// exits 0 and prints a complete-looking table (every mutation silently filtered away, or the
// bad bound silently ignored).
//
// Deterministic (fails every time on the current code).
package variants

import (
	"bytes"
	"fmt"
	"strings"
	"testing"
)

func TestBug2VariantsWindowNotValidated(t *testing.T) {

	// reference of 12 bases (one CDS, 1..12); q1 and q2 each differ from it at one site
	msa := ">ref\nATGAAACCCTAA\n>q1\nATGAAGCCCTAA\n>q2\nATGAAACCGTAA\n"
	gffText := "##gff-version 3\n" +
		"##sequence-region ref 1 12\n" +
		"ref\tx\tCDS\t1\t12\t.\t+\t0\tID=c1;Name=g1\n"

	// sanity: the valid window 1..12 is accepted and reports both mutations
	{
		out := new(bytes.Buffer)
		err := Variants(bytes.NewReader([]byte(msa)), false, "ref", strings.NewReader(gffText), "gff", out, 1, 12, false, 0.0, false, 1)
		if err != nil {
			t.Fatalf("valid window 1..12 refused: %v", err)
		}
		if out.String() != "query,mutations\nq1,nuc:A6G\nq2,nuc:C9G\n" {
			t.Fatalf("unexpected output for the valid window: %q", out.String())
		}
	}

	windows := []struct {
		start, end int // -1 is the flag's default ("not given")
		what       string
	}{
		{10, 5, "start > end"},
		{13, -1, "start beyond the reference length (12)"},
		{-1, 13, "end beyond the reference length (12)"},
		{5, 500, "end beyond the reference length (12)"},
		{0, -1, "start 0 (coordinates are 1-based)"},
		{-1, 0, "end 0 (coordinates are 1-based)"},
		{-5, -1, "negative start"},
	}

	for _, aggregate := range []bool{false, true} {
		for _, w := range windows {
			name := fmt.Sprintf("--start %d --end %d aggregate=%v (%s)", w.start, w.end, aggregate, w.what)
			t.Run(name, func(t *testing.T) {
				out := new(bytes.Buffer)
				err := Variants(bytes.NewReader([]byte(msa)), false, "ref", strings.NewReader(gffText), "gff", out, w.start, w.end, aggregate, 0.0, false, 1)
				if err == nil {
					t.Errorf("invalid window accepted: Variants returned nil (exit status 0) and wrote %q", out.String())
				}
			})
		}
	}
}
