// copy to: pkg/sam/
//
// Two insertion operations of the same length at the same reference position in ONE record
// (3M2I1P2I3M, or 3M2I2I3M) are taken for "one insertion shared by overlapping records":
// the reference row of the untrimmed pair loses reference bases, and every window that reaches
// the lost bases (e.g. --start 1 --end <reference length>) panics in trimAlignment instead of
// giving the untrimmed pair cut from the column of reference base s to that of base e.
package sam

import (
	"fmt"
	"strings"
	"testing"

	biogosam "github.com/biogo/hts/sam"
)

func bug1Pair(t *testing.T, samText string, ref string) alignPair {
	t.Helper()
	r, err := biogosam.NewReader(strings.NewReader(samText))
	if err != nil {
		t.Fatal(err)
	}
	group := samRecords{idx: 0}
	for {
		rec, err := r.Read()
		if err != nil {
			break
		}
		group.records = append(group.records, *rec)
	}
	if len(group.records) == 0 {
		t.Fatal("no records parsed")
	}
	cSR := make(chan samRecords, 1)
	cPair := make(chan alignPair, 1)
	cErr := make(chan error, 10)
	cSR <- group
	close(cSR)
	blockToPairwiseAlignment(cSR, cPair, cErr, []byte(ref), false)
	select {
	case err := <-cErr:
		t.Fatal(err)
	default:
	}
	return <-cPair
}

func bug1Trim(pair alignPair, s, e int) (out alignPair, err error) {
	in := make(chan alignPair, 1)
	res := make(chan alignPair, 1)
	cErr := make(chan error, 10)
	in <- pair
	close(in)
	defer func() {
		if r := recover(); r != nil {
			err = fmt.Errorf("trimAlignment panicked: %v", r)
		}
	}()
	trimAlignment(true, s, e, in, res, cErr)
	return <-res, nil
}

func TestBug1WindowOverRepeatedInsertionOps(t *testing.T) {
	ref := "ACGTACGTAC" // 10 bases
	for _, cigar := range []string{"3M2I1P2I3M", "3M2I2I3M"} {
		samText := "@HD\tVN:1.6\n@SQ\tSN:ref\tLN:10\n" +
			"q1\t0\tref\t1\t60\t" + cigar + "\t*\t0\t0\tACGTTTTTAC\t*\n"

		untrimmed := bug1Pair(t, samText, ref)

		// the columns of the reference bases in the untrimmed pair
		cols := make([]int, 0)
		for c, nuc := range untrimmed.ref {
			if nuc != '-' {
				cols = append(cols, c)
			}
		}
		if len(cols) != len(ref) {
			t.Errorf("%s: the untrimmed reference row %q holds %d reference bases, the reference has %d: there is no column of reference base %d to cut to",
				cigar, untrimmed.ref, len(cols), len(ref), len(ref))
		}

		for s := 1; s <= len(ref); s++ {
			for e := s; e <= len(ref); e++ {
				again := bug1Pair(t, samText, ref)
				got, err := bug1Trim(again, s, e)
				if err != nil {
					t.Errorf("%s --start %d --end %d: %v", cigar, s, e, err)
					continue
				}
				if len(cols) != len(ref) {
					continue
				}
				wantRef := string(untrimmed.ref[cols[s-1] : cols[e-1]+1])
				wantQue := string(untrimmed.query[cols[s-1] : cols[e-1]+1])
				if string(got.ref) != wantRef || string(got.query) != wantQue {
					t.Errorf("%s --start %d --end %d: got %s / %s, want %s / %s", cigar, s, e, got.ref, got.query, wantRef, wantQue)
				}
			}
		}
	}
}
