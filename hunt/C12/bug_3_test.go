// copy to: pkg/variants/
package variants

// A read error on the --annotation stream (gff, and likewise genbank) is swallowed: the parsers
// never look at their scanner's error, so the features read up to the fault - possibly ending in
// half a line - are used as if they were the whole file, and the command writes a different list
// of mutations and reports success.

import (
	"bytes"
	"errors"
	"io"
	"strings"
	"testing"
)

// bug3FaultyReader serves the first n bytes of s, then fails (as a disk or network file system can)
type bug3FaultyReader struct {
	s string
	n int
	i int
}

func (f *bug3FaultyReader) Read(p []byte) (int, error) {
	if f.i >= f.n {
		return 0, errors.New("input/output error")
	}
	end := f.n
	if end-f.i > len(p) {
		end = f.i + len(p)
	}
	n := copy(p, f.s[f.i:end])
	f.i += n
	return n, nil
}

func TestBug3AnnotationReadErrorIgnored(t *testing.T) {
	msa := ">ref\nATGAAATTTCCC\n>q\nATGAAGTTTCAC\n"
	line1 := "ref\t.\tCDS\t1\t6\t.\t+\t0\tID=c1;Name=g1\n"
	line2 := "ref\t.\tCDS\t7\t12\t.\t+\t0\tID=c2;Name=g2\n"
	gffText := "##gff-version 3\n##sequence-region ref 1 12\n" + line1 + line2

	run := func(anno io.Reader, threads int) (string, error) {
		out := new(bytes.Buffer)
		err := Variants(bytes.NewReader([]byte(msa)), false, "ref", anno, "gff", out, -1, -1, false, 0.0, false, threads)
		return out.String(), err
	}

	want, err := run(strings.NewReader(gffText), 1)
	if err != nil {
		t.Fatal(err)
	}
	if want != "query,mutations\nq,nuc:A6G|aa:g2:P2H\n" {
		t.Fatalf("unexpected fault-free output %q", want)
	}

	headLen := len(gffText) - len(line2)
	for _, cut := range []int{headLen, headLen + len(line2) - 3} { // at the end of a line; in the middle of the last line
		got, err := run(&bug3FaultyReader{s: gffText, n: cut}, 1)
		if err != nil {
			continue // the fault is reported: fine
		}
		if got != want {
			t.Errorf("the read of --annotation failed after %d of %d bytes, yet the command reports success and writes other bytes for the same input:\nwith the fault: %q\nwithout:        %q", cut, len(gffText), got, want)
		}
	}
}
