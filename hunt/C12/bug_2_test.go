// copy to: pkg/sam/
package sam

// The diagnostics that sam toMultiAlign / toPairAlign / variants write to standard error for an
// ACCEPTED input come out in an order that depends on how the reader stage and the worker stage
// happen to interleave, even with --threads 1. The two schedules below are forced only through a
// slow reader and a slow writer.

import (
	"bytes"
	"io"
	"os"
	"strings"
	"testing"
	"time"
)

// chunkReader hands out the given chunks one Read at a time, sleeping before chunk number pauseAt
type bug2ChunkReader struct {
	chunks  []string
	i       int
	pauseAt int
	pause   time.Duration
}

func (c *bug2ChunkReader) Read(p []byte) (int, error) {
	if c.i >= len(c.chunks) {
		return 0, io.EOF
	}
	if c.i == c.pauseAt {
		time.Sleep(c.pause)
	}
	if len(p) < len(c.chunks[c.i]) {
		n := copy(p, c.chunks[c.i])
		c.chunks[c.i] = c.chunks[c.i][n:]
		return n, nil
	}
	n := copy(p, c.chunks[c.i])
	c.i++
	return n, nil
}

// bug2SlowWriter sleeps in its first Write
type bug2SlowWriter struct {
	b     bytes.Buffer
	first bool
	pause time.Duration
}

func (s *bug2SlowWriter) Write(p []byte) (int, error) {
	if !s.first {
		s.first = true
		time.Sleep(s.pause)
	}
	return s.b.Write(p)
}

func bug2Run(t *testing.T, in io.Reader, out io.Writer) string {
	t.Helper()
	r, w, err := os.Pipe()
	if err != nil {
		t.Fatal(err)
	}
	old := os.Stderr
	os.Stderr = w
	done := make(chan string)
	go func() {
		b, _ := io.ReadAll(r)
		done <- string(b)
	}()
	err = ToMultiAlign(in, out, -1, -1, -1, false, 1) // --threads 1
	os.Stderr = old
	w.Close()
	se := <-done
	r.Close()
	if err != nil {
		t.Fatal(err)
	}
	return se
}

// the order of the diagnostics, without the (separately unstable) list of bases at the end of the
// "ambiguous overlapping alignment" line
func bug2Lines(se string) string {
	var kept []string
	for _, l := range strings.Split(strings.TrimSpace(se), "\n") {
		if strings.HasPrefix(l, "ambiguous overlapping alignment: ") {
			l = l[:strings.LastIndex(l, ": ")]
		}
		kept = append(kept, l)
	}
	return strings.Join(kept, " / ")
}

func TestBug2StderrOrderDependsOnSchedule(t *testing.T) {
	head := "@HD\tVN:1.6\n@SQ\tSN:ref\tLN:8\n" +
		"q0\t0\tref\t1\t60\t8M\t*\t0\t0\tACGTACGT\t*\n" +
		"q0b\t0\tref\t1\t60\t8M\t*\t0\t0\tACGTACGT\t*\n" +
		// two overlapping records of q1 that disagree at position 1 (a warning from the WORKER stage)
		"q1\t0\tref\t1\t60\t8M\t*\t0\t0\tACGTACGT\t*\n" +
		"q1\t2048\tref\t1\t60\t8M\t*\t0\t0\tCCGTACGT\t*\n" +
		"q2\t0\tref\t1\t60\t8M\t*\t0\t0\tACGTACGT\t*\n"
	// an unmapped read (a warning from the READER stage)
	tail := "u1\t4\t*\t0\t0\t*\t*\t0\t0\tACGT\t*\n" +
		"q3\t0\tref\t1\t60\t8M\t*\t0\t0\tACGTACGT\t*\n"

	// schedule A: the input arrives at once, the consumer of the output is slow for a moment
	outA := &bug2SlowWriter{pause: 300 * time.Millisecond}
	seA := bug2Run(t, strings.NewReader(head+tail), outA)

	// schedule B: the output is consumed at once, the input stalls for a moment before the line of u1
	outB := new(bytes.Buffer)
	seB := bug2Run(t, &bug2ChunkReader{chunks: []string{head, tail}, pauseAt: 1, pause: 300 * time.Millisecond}, outB)

	if outA.b.String() != outB.String() {
		t.Fatalf("the alignments differ:\n%q\n%q", outA.b.String(), outB.String())
	}
	if bug2Lines(seA) != bug2Lines(seB) {
		t.Errorf("same input, same options (--threads 1), two schedules: the bytes written to standard error differ\nslow writer: %s\nslow reader: %s", bug2Lines(seA), bug2Lines(seB))
	}
}
