// copy to: pkg/sam/
package sam

// Two runs of `gofasta sam toMultiAlign` on the same (accepted) input with --threads 1 do not write
// the same bytes: the warning about a site at which overlapping records of one query disagree lists
// the bases in the iteration order of a Go map (getSetFromSlice / getNucFromSite, pkg/sam/sam.go).
//
// Fails practically always (each run has a chance of roughly 10-50 % of showing the other order;
// 300 runs are compared).

import (
	"bytes"
	"io"
	"os"
	"strings"
	"testing"
)

// bug1Run runs ToMultiAlign once and returns what it wrote to the output and to standard error
func bug1Run(t *testing.T, samText string, threads int) (string, string) {
	t.Helper()
	r, w, err := os.Pipe()
	if err != nil {
		t.Fatal(err)
	}
	old := os.Stderr
	os.Stderr = w
	done := make(chan string)
	go func() {
		b, _ := io.ReadAll(r)
		done <- string(b)
	}()
	out := new(bytes.Buffer)
	err = ToMultiAlign(strings.NewReader(samText), out, -1, -1, -1, false, threads)
	os.Stderr = old
	w.Close()
	se := <-done
	r.Close()
	if err != nil {
		t.Fatal(err)
	}
	return out.String(), se
}

func TestBug1StderrDependsOnMapIterationOrder(t *testing.T) {
	// one query, a primary and a supplementary record that overlap and disagree at position 1 (A / C)
	samText := "@HD\tVN:1.6\n@SQ\tSN:ref\tLN:8\n" +
		"q1\t0\tref\t1\t60\t8M\t*\t0\t0\tACGTACGT\t*\n" +
		"q1\t2048\tref\t1\t60\t8M\t*\t0\t0\tCCGTACGT\t*\n"

	out0, se0 := bug1Run(t, samText, 1)
	if out0 != ">q1\nNCGTACGT\n" {
		t.Fatalf("unexpected alignment %q", out0)
	}
	for i := 0; i < 300; i++ {
		out, se := bug1Run(t, samText, 1)
		if out != out0 {
			t.Fatalf("run %d: the alignment differs: %q vs %q", i, out0, out)
		}
		if se != se0 {
			t.Fatalf("run %d: same input, same options, --threads 1, yet the bytes written to standard error differ between two runs:\n%q\n%q", i, se0, se)
		}
	}
}
