#!/bin/bash
# usage: tools/run_refactor.sh <patch.diff> <out_dir> [props...]
# Applies a behaviour-preserving change to a scratch copy of /repo (never /repo itself), confirms it
# builds and the suite passes, and runs the quick checks against it: every check must stay silent.
set -u
export GOFLAGS=-mod=mod GOPROXY=off GOSUMDB=off GOTOOLCHAIN=local
PATCH="$(realpath "$1")"; OUT="$2"; shift 2
PROPS="${*:-C01 C02 C03 C06 C08 C09 C10 C12 C13 C15 C16 C18 C19}"
VERIF="$(cd "$(dirname "$0")/.." && pwd)"
W="/var/tmp/refactor.$$"; mkdir -p "$W" "$OUT"; OUT="$(realpath "$OUT")"
trap 'rm -rf "$W"' EXIT
rsync -a /repo/ "$W/mut/" || exit 2
(cd "$W/mut" && { git apply "$PATCH" 2>/dev/null || { git update-index -q --refresh; git apply --3way "$PATCH" >/dev/null 2>&1; }; }) || { echo "REFACTOR: patch does not apply"; exit 2; }
(cd "$W/mut" && go build ./... ) > "$OUT/build.log" 2>&1 || { echo "REFACTOR: does not build"; exit 2; }
(cd "$W/mut" && go test -vet=off -count=1 ./... ) > "$OUT/suite.log" 2>&1 && echo "REFACTOR: existing suite passes" || { echo "REFACTOR: existing suite FAILS (rejected)"; exit 3; }
for p in $PROPS; do
  VERIF_REPO="$W/mut" VERIF_EVIDENCE_DIR="$OUT/evidence" VERIF_REPLAY_DIR="$OUT/replays" "$VERIF/check.sh" $p quick > "$OUT/check_$p.log" 2>&1
  rc=$?
  cls=$(grep -a "^violation class\|^INCONCLUSIVE\|^NOTE" "$OUT/check_$p.log" | sed 's/ (.*//' | tr '\n' ' ')
  echo "CHECK $p exit=$rc $cls"
done
