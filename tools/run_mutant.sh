#!/bin/bash
# usage: tools/run_mutant.sh <patch.diff> <demo_test.go> <out_dir> [props...]
# Confirms a candidate property-breaking change (applies, builds, the repository's suite still passes,
# the demonstration fails with it and passes without it) in a scratch copy of /repo, then runs the
# quick checks against the changed copy. Never touches /repo; evidence of these runs goes to <out_dir>.
set -u
export GOFLAGS=-mod=mod GOPROXY=off GOSUMDB=off GOTOOLCHAIN=local
PATCH="$(realpath "$1")"; DEMO="$(realpath "$2")"; OUT="$3"; shift 3
PROPS="${*:-C01 C02 C03 C06 C08 C09 C10 C12 C13 C15 C16 C18 C19}"
VERIF="$(cd "$(dirname "$0")/.." && pwd)"
W="/var/tmp/mutant.$$"; mkdir -p "$W" "$OUT"; OUT="$(realpath "$OUT")"
trap 'rm -rf "$W"' EXIT
rsync -a /repo/ "$W/clean/" && rsync -a /repo/ "$W/mut/" || exit 2
(cd "$W/mut" && { git apply "$PATCH" 2>/dev/null || { git update-index -q --refresh; git apply --3way "$PATCH" >/dev/null 2>&1; }; }) || { echo "MUTANT: patch does not apply"; exit 2; }
DEST=$(head -1 "$DEMO" | sed -n 's,^// *copy to: *\([^ ]*\).*,\1,p'); DEST="${DEST%/}"
[ -n "$DEST" ] || { echo "MUTANT: demo has no '// copy to:' line"; exit 2; }
(cd "$W/mut" && go build ./... ) > "$OUT/build.log" 2>&1 || { echo "MUTANT: does not build"; exit 2; }
(cd "$W/mut" && go test -vet=off -count=1 ./... ) > "$OUT/suite.log" 2>&1 && echo "MUTANT: existing suite passes with the change" || { echo "MUTANT: existing suite FAILS with the change (rejected)"; tail -5 "$OUT/suite.log"; exit 3; }
cp "$DEMO" "$W/clean/$DEST/zz_demo_test.go"; cp "$DEMO" "$W/mut/$DEST/zz_demo_test.go"
(cd "$W/clean/$DEST" && go test -vet=off -count=1 . ) > "$OUT/demo_clean.log" 2>&1 && echo "MUTANT: demo passes on the clean tree" || { echo "MUTANT: demo FAILS on the clean tree (rejected)"; tail -15 "$OUT/demo_clean.log"; exit 3; }
(cd "$W/mut/$DEST" && go test -vet=off -count=1 . ) > "$OUT/demo_mut.log" 2>&1 && { echo "MUTANT: demo passes WITH the change (rejected)"; exit 3; } || echo "MUTANT: demo fails with the change"
rm -f "$W/mut/$DEST/zz_demo_test.go"
for p in $PROPS; do
  VERIF_REPO="$W/mut" VERIF_EVIDENCE_DIR="$OUT/evidence" VERIF_REPLAY_DIR="$OUT/replays" "$VERIF/check.sh" $p quick > "$OUT/check_$p.log" 2>&1
  rc=$?
  cls=$(grep "^violation class" "$OUT/check_$p.log" | sed 's/ (.*//; s/^violation class //' | tr '\n' ' ')
  echo "CHECK $p exit=$rc $cls"
done
