#!/bin/bash
# Runs every quick check against /repo; prints one line per check and fails if any is not exit 0.
cd "$(dirname "$0")/.."
bad=0
for p in C01 C02 C03 C06 C08 C09 C10 C12 C13 C15 C16 C18 C19; do
  out=$(./check.sh $p quick 2>&1); rc=$?
  echo "$(echo "$out" | tail -1)"
  [ $rc = 0 ] || { bad=1; echo "$out" | grep -a "^violation class\|^INCONCLUSIVE\|^HARNESS" | head -5; }
done
exit $bad
