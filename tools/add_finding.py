#!/usr/bin/env python3
# usage: tools/add_finding.py <property> <class> <commit> <replay file under findings/> <what failed>
import json, sys
prop, cls, commit, replay, what = sys.argv[1:6]
p = '/verif/known_findings.json'
d = json.load(open(p))
d['findings'].append({"property": prop, "class": cls, "status": "fixed", "commit": commit,
                      "what": "fixed: property=%s %s %s" % (prop, commit, what), "replay": replay})
json.dump(d, open(p, 'w'), indent=1)
open(p, 'a').write("\n")
