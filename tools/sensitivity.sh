#!/bin/bash
# usage: tools/sensitivity.sh [seeded ids...]
# Sensitivity self-test: applies each confirmed property-breaking change under /verif/seeded to a
# scratch copy of /repo (never /repo itself), runs the quick check of the property it breaks and expects
# exit 1 (VIOLATION); then applies each behaviour-preserving change under /verif/benign and expects
# exit 0 from the checks recorded for it. Evidence of these runs goes to a scratch directory.
set -u
export GOFLAGS=-mod=mod GOPROXY=off GOSUMDB=off GOTOOLCHAIN=local
VERIF="$(cd "$(dirname "$0")/.." && pwd)"
W="/var/tmp/sens.$$"; mkdir -p "$W"; trap 'rm -rf "$W"' EXIT
ids="${*:-$(ls "$VERIF/seeded") $(ls "$VERIF/benign" 2>/dev/null)}"
bad=0
for id in $ids; do
  if [ -d "$VERIF/seeded/$id" ]; then dir="$VERIF/seeded/$id"; want=1; else dir="$VERIF/benign/$id"; want=0; fi
  [ -f "$dir/patch.diff" ] || continue
  # (with .git: a patch made against an earlier commit is merged three-way onto the current tree)
  rm -rf "$W/mut"; rsync -a /repo/ "$W/mut/" || exit 2
  (cd "$W/mut" && { git apply "$dir/patch.diff" 2>/dev/null || { git update-index -q --refresh; git apply --3way "$dir/patch.diff" >/dev/null 2>&1; }; }) || { echo "$id: patch does not apply to the current tree"; bad=1; continue; }
  rm -rf "$W/mut/.git"
  if [ $want = 1 ]; then props=$(python3 -c "import json;print(json.load(open('$dir/meta.json'))['breaks_property'])")
  else props=$(python3 -c "import json;print(' '.join(sorted(json.load(open('$dir/meta.json'))['checks_run'])))"); fi
  for p in $props; do
    VERIF_REPO="$W/mut" VERIF_EVIDENCE_DIR="$W/ev" VERIF_REPLAY_DIR="$W/rp" "$VERIF/check.sh" $p quick > "$W/log" 2>&1; rc=$?
    if [ $rc = $want ]; then echo "$id $p: exit $rc as expected $(grep -a '^violation class' "$W/log" | head -2 | sed 's/ (.*//; s/^violation class //' | tr '\n' ' ')"
    else echo "$id $p: exit $rc, EXPECTED $want"; bad=1; fi
  done
done
[ $bad = 0 ] && echo "SENSITIVITY OK" || { echo "SENSITIVITY FAILED"; exit 1; }
