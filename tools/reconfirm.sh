#!/bin/bash
# usage: tools/reconfirm.sh [seeded ids...]
# Re-confirms every stored property-breaking change against the CURRENT /repo (scratch copies only): the patch
# applies, the tree builds, the repository's own suite still passes with it, and its demonstration fails with
# the change and passes without it.
set -u
export GOFLAGS=-mod=mod GOPROXY=off GOSUMDB=off GOTOOLCHAIN=local
VERIF="$(cd "$(dirname "$0")/.." && pwd)"
W="/var/tmp/reconfirm.$$"; mkdir -p "$W"; trap 'rm -rf "$W"' EXIT
ids="${*:-$(ls "$VERIF/seeded")}"
bad=0
rsync -a /repo/ "$W/clean/" || exit 2
for id in $ids; do
  dir="$VERIF/seeded/$id"; [ -f "$dir/patch.diff" ] || continue
  rm -rf "$W/mut"; rsync -a /repo/ "$W/mut/" || exit 2
  (cd "$W/mut" && { git apply "$dir/patch.diff" 2>/dev/null || { git update-index -q --refresh; git apply --3way "$dir/patch.diff" >/dev/null 2>&1; }; }) || { echo "$id: PATCH DOES NOT APPLY"; bad=1; continue; }
  dest=$(head -1 "$dir/demo_test.go" | sed -n 's,^// *copy to: *\([^ ]*\).*,\1,p'); dest="${dest%/}"
  (cd "$W/mut" && go build ./... ) >/dev/null 2>&1 || { echo "$id: DOES NOT BUILD"; bad=1; continue; }
  (cd "$W/mut" && go test -vet=off -count=1 ./... ) > "$W/suite.log" 2>&1 || { echo "$id: EXISTING SUITE FAILS WITH THE CHANGE"; bad=1; continue; }
  cp "$dir/demo_test.go" "$W/clean/$dest/zz_demo_test.go"; cp "$dir/demo_test.go" "$W/mut/$dest/zz_demo_test.go"
  (cd "$W/clean/$dest" && go test -vet=off -count=1 . ) > "$W/c.log" 2>&1; c=$?
  (cd "$W/mut/$dest" && go test -vet=off -count=1 . ) > "$W/m.log" 2>&1; m=$?
  rm -f "$W/clean/$dest/zz_demo_test.go"
  if [ $c = 0 ] && [ $m != 0 ]; then echo "$id: confirmed"; else echo "$id: DEMO clean-exit=$c mutant-exit=$m"; bad=1; fi
done
[ $bad = 0 ] && echo "RECONFIRM OK" || { echo "RECONFIRM FAILED"; exit 1; }
