#!/bin/bash
# usage: check.sh <property> quick|thorough
#        check.sh <property> --replay <file>
#        check.sh selftest [args]
# Exit 0: property held on everything explored; 1: violation (VIOLATION line); 2: inconclusive / build or harness trouble.
set -u
export GOFLAGS=-mod=mod GOPROXY=off GOSUMDB=off GOTOOLCHAIN=local
VERIF="$(cd "$(dirname "$0")" && pwd)"
REPO="${VERIF_REPO:-/repo}"
SCRATCH="${VERIF_SCRATCH:-/var/tmp}/verif.$$"
PROP="${1:?property id}"
MODE="${2:-quick}"
cleanup() { rm -rf "$SCRATCH"; }
trap cleanup EXIT
mkdir -p "$SCRATCH" || exit 2

if [ ! -x "$VERIF/bin/simgen" ] || [ "$VERIF/simgen/main.go" -nt "$VERIF/bin/simgen" ]; then
  mkdir -p "$VERIF/bin"
  (cd "$VERIF/simgen" && go build -o "$VERIF/bin/simgen" .) || { echo "INCONCLUSIVE: cannot build simgen"; exit 2; }
fi

# 1. scratch copy of the current working tree (never touches /repo), 2. seams, 3. harness
rsync -a --exclude .git "$REPO/" "$SCRATCH/repo/" || exit 2
"$VERIF/bin/simgen" -simrt "$VERIF/simrt" "$SCRATCH/repo" > "$SCRATCH/simgen.log" 2>&1 || { cat "$SCRATCH/simgen.log"; echo "INCONCLUSIVE: simgen cannot transform this tree (unsupported construct or it does not compile)"; exit 2; }
mkdir -p "$SCRATCH/repo/zverif" && cp "$VERIF"/harness/*.go "$SCRATCH/repo/zverif/" || exit 2
cp "$VERIF/harness/cmd_entry/zverif_entry.go.in" "$SCRATCH/repo/cmd/zverif_entry.go" || exit 2
(cd "$SCRATCH/repo" && go build -o "$SCRATCH/harness" ./zverif) > "$SCRATCH/build.log" 2>&1 || { cat "$SCRATCH/build.log"; echo "INCONCLUSIVE: the transformed tree or the harness does not build"; exit 2; }

RACEBIN=""
NEEDRACE=""
if [ "$PROP" = "C12" ] && [ "$MODE" != "--replay" ] && [ -z "${VERIF_NORACE:-}" ]; then NEEDRACE=1; fi
if [ "$MODE" = "--replay" ] && grep -q '"race": "1"' "${3:-/dev/null}" 2>/dev/null; then NEEDRACE=1; fi
if [ -n "$NEEDRACE" ]; then
  (cd "$SCRATCH/repo" && go build -race -o "$SCRATCH/harness-race" ./zverif) > "$SCRATCH/build-race.log" 2>&1 || { cat "$SCRATCH/build-race.log"; echo "INCONCLUSIVE: -race build failed"; exit 2; }
  RACEBIN="$SCRATCH/harness-race"
fi

if [ "$PROP" = "selftest" ]; then
  # (a) simrt's own tests, plain and under -race; (b) the repository's suite on the transformed tree,
  # baseline schedule and three seeded schedules; (c) determinism across processes / GOMAXPROCS;
  # (d) transformed-tree-under-simulator vs untransformed-tree-on-Go-runtime on generated inputs
  (cd "$VERIF/simrt" && go test -count=1 . && go test -race -count=1 .) || { echo "SELFTEST FAILED: simrt unit tests"; exit 2; }
  for s in "" 1 2 3; do
    (cd "$SCRATCH/repo" && VERIF_SEED=$s VERIF_NUMCPU=3 go test -vet=off -count=1 $(go list ./... | grep -v zverif) > "$SCRATCH/suite.log" 2>&1) || { cat "$SCRATCH/suite.log"; echo "SELFTEST FAILED: repository test suite on the transformed tree (VERIF_SEED='$s')"; exit 2; }
    echo "selftest: repository test suite passes on the transformed tree under the simulator (schedule seed '${s:-baseline}')"
  done
  rsync -a --exclude .git "$REPO/" "$SCRATCH/real/" || exit 2
  printf '\nrequire verif/simrt v0.0.0\n\nreplace verif/simrt => %s\n' "$VERIF/simrt" >> "$SCRATCH/real/go.mod"
  mkdir -p "$SCRATCH/real/zverif" && cp "$VERIF"/harness/*.go "$SCRATCH/real/zverif/"
  cp "$VERIF/harness/cmd_entry/zverif_entry.go.in" "$SCRATCH/real/cmd/zverif_entry.go"
  (cd "$SCRATCH/real" && go build -tags realtree -o "$SCRATCH/harness-real" ./zverif) > "$SCRATCH/build-real.log" 2>&1 || { cat "$SCRATCH/build-real.log"; echo "SELFTEST FAILED: realtree build"; exit 2; }
  "$SCRATCH/harness" selftest -realbin "$SCRATCH/harness-real" 2>/dev/null
  exit $?
fi

case "$MODE" in
  --replay)
    if [ -n "$RACEBIN" ]; then
      GORACE="halt_on_error=0 log_path=$SCRATCH/racelog" "$RACEBIN" raceworker -replay "${3:?replay file}" -log "$SCRATCH/racelog"
      rc=$?; [ $rc -eq 66 ] && rc=1; exit $rc
    fi
    "$SCRATCH/harness" replay "${3:?replay file}"
    exit $? ;;
  quick|thorough)
    "$SCRATCH/harness" check -prop "$PROP" -tier "$MODE" -seed "${VERIF_SEED:-1}" -workers "${VERIF_WORKERS:-16}" -verif "$VERIF" -scratch "$SCRATCH" -racebin "$RACEBIN"
    exit $? ;;
  *)
    echo "usage: check.sh <property> quick|thorough | --replay <file>"; exit 2 ;;
esac
